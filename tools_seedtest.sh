#!/bin/bash
# usage: tools_seedtest.sh <patch.diff> <PROP> [more PROPs...]
# applies a seeded change to /repo, runs the quick checks, reverts it.
set -u
patch="$1"; shift
cd /repo || exit 2
if ! git diff --quiet; then echo "/repo has local changes; refusing"; exit 2; fi
git apply "$patch" || { echo "patch does not apply"; exit 2; }
for p in "$@"; do
  cp /verif/evidence/$p.json /verif/work/evidence.$p.keep 2>/dev/null   # the evidence of a seeded run must not replace the real one
  ( cd /verif && timeout 1800 python3 verif.py check "$p" --tier quick 2>&1 | grep -E "^VIOLATION|^\[$p\] tier|ENGINE-ERROR|violation in" | head -6 ; echo "exit=${PIPESTATUS[0]}" )
done
for p in "$@"; do [ -f /verif/work/evidence.$p.keep ] && mv /verif/work/evidence.$p.keep /verif/evidence/$p.json; done
git -C /repo checkout -- . && git -C /repo status --short | head -3
rm -f /verif/replays/*.json
