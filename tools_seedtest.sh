#!/bin/bash
# usage: tools_seedtest.sh <patch.diff> <PROP> [more PROPs...]
# applies a seeded change to /repo, runs the quick checks, reverts it.
set -u
patch="$1"; shift
cd /repo || exit 2
if ! git diff --quiet; then echo "/repo has local changes; refusing"; exit 2; fi
git apply "$patch" || { echo "patch does not apply"; exit 2; }
for p in "$@"; do
  ( cd /verif && timeout 1800 python3 verif.py check "$p" --tier quick 2>&1 | grep -E "^VIOLATION|^\[$p\] tier|ENGINE-ERROR|violation in" | head -6 ; echo "exit=${PIPESTATUS[0]}" )
done
git -C /repo checkout -- . && git -C /repo status --short | head -3
rm -f /verif/replays/*.json
