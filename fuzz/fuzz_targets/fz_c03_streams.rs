#![no_main]
//! libFuzzer target: the fuzzer's bytes are the entropy of the proptest strategy of C03/streams;
//! the sub-check's own oracle (spec model etc.) decides. See engine/harness/src/fuzz.rs.
use libfuzzer_sys::fuzz_target;

fuzz_target!(|data: &[u8]| {
    vcheck_lib::fuzz::target("C03", "streams", data);
});
