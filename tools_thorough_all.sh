#!/bin/bash
# runs the thorough tier of every property in turn; prints one summary line per property
cd "$(dirname "$0")"
# in a `vp run --with-repo` snapshot: point this (throw-away) copy of the harness at the /repo snapshot, so that
# /repo itself may be modified (seeded changes) while this runs
if [ -n "${VP_RUN_REPO:-}" ] && [ "$(pwd)" != "/verif" ]; then
  sed -i "s#\"/repo#\"$VP_RUN_REPO#g" engine/harness/Cargo.toml engine/b3shim/Cargo.toml engine/b3shim/src/lib.rs
  export VERIF_REPO=$VP_RUN_REPO
fi
for p in ${PROPS:-C01 C02 C03 C04 C05 C06 C07 C08 C09 C10 C11 C12 C13 C14 C15 C16 C17 C18}; do
  s=$(date +%s)
  VERIF_SEED=${VERIF_SEED:-0} python3 verif.py check $p --tier thorough > work_thorough_$p.log 2>&1
  rc=$?
  echo "$p exit=$rc wall=$(( $(date +%s) - s ))s $(grep -E "^\[$p\] tier" work_thorough_$p.log | tail -1)"
  grep -E "^VIOLATION|ENGINE-ERROR|KNOWN-FINDING|UNCONFIRMED" work_thorough_$p.log | head -5
done
