#!/bin/bash
# usage: tools_seedconfirm.sh <ID> <seedname> <kind: example|test|sh> <demo file>
# Confirms in the scratch worktree /tmp/seed/<ID> (change applied): suite passes with the change,
# demo fails with the change and passes without; then archives to /verif/seeded/<seedname>/.
set -u
id="$1"; name="$2"; kind="$3"; demo="$4"
base=${SEEDROOT:-/tmp/seed}; wt=$base/$id; out=$base/$id.out
cd "$wt" || exit 2
git diff > $base/$id.confirm.diff
if ! diff -q $base/$id.confirm.diff "$out/patch.diff" >/dev/null; then echo "NOTE: worktree diff differs from patch.diff (using worktree diff)"; cp $base/$id.confirm.diff "$out/patch.diff"; fi
tests=$(cargo test --workspace --no-fail-fast --offline 2>&1 | grep -E "^test result" | tr '\n' ';')
echo "tests with change: $tests"
run_demo() {
  case "$kind" in
    example) mkdir -p examples && cp "$demo" examples/seed_demo.rs && cargo run -q --offline --example seed_demo >$base/$id.demo.log 2>&1; rc=$?; rm -rf examples;;
    example-features) mkdir -p examples && cp "$demo" examples/seed_demo.rs && cargo run -q --offline --features "$FEATURES" --example seed_demo >$base/$id.demo.log 2>&1; rc=$?; rm -rf examples;;
    test) cp "$demo" tests/seed_demo.rs 2>/dev/null || { mkdir -p tests; cp "$demo" tests/seed_demo.rs; }; cargo test -q --offline ${FEATURES:+--features $FEATURES} --test seed_demo >$base/$id.demo.log 2>&1; rc=$?; rm -f tests/seed_demo.rs; rmdir tests 2>/dev/null;;
    sh) bash "$demo" >$base/$id.demo.log 2>&1; rc=$?;;
  esac
  return $rc
}
run_demo; with=$?
git diff > $base/$id.undo.diff; git apply -R $base/$id.undo.diff; run_demo; without=$?; git apply $base/$id.undo.diff   # (git stash is shared between worktrees: never use it here)
echo "demo exit with change: $with ; without change: $without"
tail -3 $base/$id.demo.log
if [ "$with" -ne 0 ] && [ "$without" -eq 0 ] && echo "$tests" | grep -q "44 passed; 0 failed"; then
  mkdir -p /verif/seeded/$name && cp "$out"/patch.diff /verif/seeded/$name/ && cp "$out"/demo* /verif/seeded/$name/ 2>/dev/null
  rm -f /verif/seeded/$name/demo.bin
  python3 - "$out/meta.json" "/verif/seeded/$name/meta.json" "$tests" "$with" "$without" "$kind" <<'PY'
import json,sys
src,dst,tests,w,wo,kind=sys.argv[1:7]
try: m=json.load(open(src))
except Exception as e: m={"note":"agent meta.json unreadable: %s"%e}
m["confirmed_by_framework_author"]={"suite_with_change":tests,"demo_exit_with_change":int(w),"demo_exit_without_change":int(wo),"demo_kind":kind,
  "procedure":"tools_seedconfirm.sh in the agent's scratch worktree: cargo test --workspace --no-fail-fast --offline with the change; demo with the change (must fail) and after git stash (must pass)"}
json.dump(m,open(dst,"w"),indent=1)
PY
  echo "KEPT as /verif/seeded/$name"
else
  echo "NOT CONFIRMED"
fi
