#!/usr/bin/env python3
"""Regenerates MANIFEST.json from the table below (keeps it valid at all times)."""
import json, os, sys
ROOT = os.path.dirname(os.path.abspath(__file__))

CHECKS = {
 "C01": dict(
   technique="property-based testing (proptest, seeded, shrinking) + dense length sweep against an independent spec model",
   text="Exploration: every input length 0..130 KiB (quick) / 0..520 KiB (thorough) in all three modes plus proptest-generated (mode, key/context, boundary-lattice length, content) cases are compared with an independent recursive-definition model of the BLAKE3 paper that is itself pinned to a frozen copy of the official vectors; panics and debug assertions count as failures. Right level because the property quantifies over all inputs and the oracle is executable; it cannot show absence beyond the generated cases.",
   note="Trusts: the spec model in engine/spec (self-tested against oracle/test_vectors.json on every run), rustc, proptest. Harness is built with debug-assertions and overflow-checks ON (thorough also without).",
   design="DESIGN.md §3 C01"),
}

NOT_YET = {}

def main():
    props = [json.loads(l) for l in open(os.path.join(ROOT, "properties.jsonl"))]
    ids = [p["id"] for p in props]
    checks = []
    for pid in ids:
        if pid not in CHECKS:
            continue
        c = CHECKS[pid]
        checks.append(dict(
            property_id=pid,
            quick_cmd="python3 verif.py check %s --tier quick" % pid,
            thorough_cmd="python3 verif.py check %s --tier thorough" % pid,
            evidence_file="evidence/%s.json" % pid,
            replay_cmd_template="python3 verif.py replay %s {path}" % pid,
            engine="vcheck",
            level_claimed=dict(category="exploration", text=c["text"], design_ref=c["design"]),
            level_note=c["note"],
            technique=c["technique"],
        ))
    na = []
    for pid in ids:
        if pid not in CHECKS:
            na.append(dict(property_id=pid, reason=NOT_YET.get(pid, "check not built yet in this revision of /verif (the technique applies; see DESIGN.md §3 for the planned check)")))
    man = dict(
        version=1,
        setup_cmd="python3 verif.py setup",
        hooks=dict(
            guard="blake3_team_blake3_verif",
            enable="RUSTFLAGS='--cfg blake3_team_blake3_verif' (set by verif.py for every harness build; harness crate at engine/harness depends on /repo by path)",
            baseline_off_cmd="cd /repo && cargo test --workspace --no-fail-fast --offline",
            source_commits=HOOK_COMMITS,
            add_only=True,
        ),
        engines=[
            dict(name="vcheck", path="engine/harness", serves_properties=sorted(CHECKS.keys()),
                 kind_free_text="Rust binary: proptest strategies + enumerated sweeps, interpreters for each API under test, independent spec model (engine/spec) as oracle; sharded over 16 processes by verif.py"),
        ],
        checks=checks,
        not_applicable=na,
        notes="All checks: exit 0 held / 1 violation with VIOLATION line / 2 engine problem (never a violation). VERIF_SEED seeds every generator; replays live in replays/. See DESIGN.md.",
    )
    with open(os.path.join(ROOT, "MANIFEST.json"), "w") as f:
        json.dump(man, f, indent=1)
    print("MANIFEST.json written: %d checks, %d not_applicable" % (len(checks), len(na)))

HOOK_COMMITS = []

if __name__ == "__main__":
    main()
