#!/usr/bin/env python3
"""Regenerates MANIFEST.json from the table below (keeps it valid at all times)."""
import json, os, sys
ROOT = os.path.dirname(os.path.abspath(__file__))

def C(technique, text, note, design):
    return dict(technique=technique, text=text, note=note, design=design)

SPEC = "Trusts: the independent spec model in engine/spec (re-validated against the frozen official vectors in oracle/ at the start of every shard), rustc, proptest. "
DBG = "Harness built with debug-assertions and overflow-checks ON so internal assertions and arithmetic overflow surface as failures; the thorough tier repeats the run in a build without them. "

CHECKS = {
 "C01": C("property-based testing (proptest, seeded, shrinking) + dense length sweep vs an independent spec model",
   "Exploration: every input length 0..130 KiB (quick) / 0..520 KiB (thorough) in all three modes plus proptest-generated (mode, key/context, boundary-lattice length, content) cases, 256 KiB-16 MiB inputs, single inputs of 2^31+1 and 2^32+1 bytes, the random generator again at every SIMD level this CPU has (hook 1), sequences of nearly identical consecutive calls, and 16-64 MiB inputs in the thorough tier, are compared with a recursive-definition model of the BLAKE3 paper pinned to a frozen copy of the official vectors; panics count as failures. The property quantifies over all inputs and has an executable oracle, so generated search is the fitting level; absence beyond the generated cases is not shown.",
   SPEC + DBG, "DESIGN.md §3 C01"),
 "C02": C("model-based property testing of call histories (proptest vec(op) + interpreter, spec model compared after every op)",
   "Exploration over histories of update/Write/io::copy/update_reader/update_rayon/update_mmap*/finalize/finalize_xof/count/clone/clone_from on up to three hashers, plus few-but-long operations (64 KiB-12 MiB per call) and single updates beyond 2^32 bytes; sizes are resolved against the running total so block/chunk/power-of-two/SIMD-degree boundaries after odd prefixes are frequent; count(), finalize(), XOF bytes and the one-shot function are compared with the spec model of each instance's bytes after every step.",
   SPEC + DBG, "DESIGN.md §3 C02"),
 "C03": C("model-based property testing of OutputReader histories (position model + spec stream)",
   "Exploration over root states (inputs at block/chunk edges, merge_subtrees_root_xof) and histories of fill/read/read_exact/read_vectored/take+read_to_end/bytes/io::copy/rewind/set_position/seek/position/clone/clone_from with positions on both sides of block counter 2^32 and up to 2^64-1; every read must equal spec S[p..p+n], positions and seek results follow a u64 model, failing seeks leave the position unchanged.",
   SPEC + DBG + "Seeks beyond 2^64-1 are documented as unspecified and are not generated.", "DESIGN.md §3 C03"),
 "C04": C("differential property testing across configurations (forced SIMD level x build flavour) with a common spec oracle",
   "Exploration: the C01/C02/C03/C09 generators are re-run with the whole crate forced to each SIMD level the CPU supports (hook 1) in the asm, prefer_intrinsics, pure, no-default-features, no_avx512+no_avx2 and portable-only (all no_*) builds (thorough: stock no_* feature builds with hooks off); every output is compared with the spec model, so all configurations agree iff each agrees with it. The check fails as an engine error if an expected (build, level) pair did not execute.",
   SPEC + DBG + "Only x86-64 levels present on this CPU (SSE2, SSE4.1, AVX2, AVX-512); NEON/wasm back ends cannot run here.", "DESIGN.md §3 C04"),
 "C05": C("property-based differential testing of kernels (generated argument tuples vs spec compression function)",
   "Exploration over argument tuples of compress_in_place/compress_xof/hash_many/xof_many (counters around 2^32 carries in every lane, all flag bytes, block lengths 0..=64, 0..=35 inputs at arbitrary alignments) executed on every kernel reachable here: Platform methods at each level in three builds (Unix asm, Rust intrinsics, C AVX-512 intrinsics) and raw FFI to C portable, C intrinsics (also the AVX2 file as compiled under BLAKE3_NO_SSE41), Unix assembly and the Windows-GNU assembly (assembled to ELF, called through extern \"win64\").",
   SPEC + DBG + "MSVC .asm files, NEON and wasm kernels cannot be executed in this sandbox.", "DESIGN.md §3 C05"),
 "C06": C("model-based property testing of C API histories via FFI (spec model + Rust crate as differential oracle)",
   "Exploration over C histories (4 initialisers, updates, finalize/finalize_seek with seeks up to 2^64-1, reset, struct copy, zero-length calls) x CPU-feature mask x nine library builds compiled from /repo/c at check time (assembly, C intrinsics, both with -DNDEBUG, C intrinsics with BLAKE3_NO_SSE41 / NO_AVX512 / NO_AVX512+NO_AVX2 / all NO_* / NO_SSE2); outputs vs spec S[seek..seek+n] and vs the Rust crate; hasher bytes compared across finalize; reset hasher in lockstep with a fresh twin; single updates beyond 2^32 bytes; plus a clang ASan+UBSan+libFuzzer target over the C sources (engine/cfuzz/c_api_fuzz.c) with the spec model as in-target oracle (corpus replay + fixed executions).",
   SPEC + "Trusts gcc and the symbol-prefixing build (objcopy --redefine-syms) in engine/harness/build.rs.", "DESIGN.md §3 C06"),
 "C07": C("property-based testing with fault observation: guard-page placement, register-sentinel trampolines, forked execution",
   "Exploration: C05 tuples and C06 histories are re-run in a forked server process with every buffer (inputs, pointer array, key, cv, block, output, the blake3_hasher object) flush against PROT_NONE pages (end- or start-flush) and canaries on the open side; hand-written assembly is called through trampolines that plant sentinels in all callee-saved registers of System V / Win64 and record rsp and DF, entered at every stack alignment mod 64; byte-granular buffers are also moved off their natural alignment (0..15 bytes). The C sources (incl. C intrinsics kernels) additionally run under clang ASan+UBSan in a libFuzzer target over API histories (engine/cfuzz/c_api_fuzz.c). A fault, a sanitizer report, a damaged canary, a lost sentinel or a wrong result fails the case (and shrinks). Thorough: also the unsafe Rust intrinsics builds.",
   SPEC + "Reads that stay inside the same page as another live buffer are only caught in the placement that isolates that buffer; UB without a symptom under guard pages (assembly) or ASan/UBSan (C sources) is out of reach.", "DESIGN.md §3 C07"),
 "C09": C("property-based testing with a recursive decomposition generator + enumerated helper lattice",
   "Exploration over random valid tree decompositions (split decisions consumed depth-first, per-leaf update splits, 4 modes), fixed power-of-two groupings, subtrees at chunk indices up to 2^54-1 and up to the last byte of the counter space, leaves hashed by fresh hashers or by one re-seeded worker (clone_from / reset), and the two length helpers on a power-of-two lattice plus random u64 arguments; leaf CVs vs spec subtree CVs, roots vs spec hash/XOF, helpers vs closed forms.",
   SPEC + DBG, "DESIGN.md §3 C09"),
 "C10": C("model-based property testing: prefix . reset . suffix histories in lockstep with a fresh hasher and the spec model",
   "Exploration over histories with set_input_offset (chunk-index lattice), updates clamped to the offset's subtree limit, finalize variants, inherent reset, digest::Reset and all eight resetting trait finalizers (output lengths 0/1/32/100), clone / clone_from / swap; after each reset a freshly constructed twin runs the same suffix and both are compared with each other and with the spec after every op.",
   SPEC + DBG, "DESIGN.md §3 C10"),
 "C11": C("property-based fault injection: scripted Read implementations + file-length lattice, spec oracle",
   "Exploration over reader behaviours (short reads, Interrupted, hard errors of every stable ErrorKind, early EOF in any order), with prefixes and continued use after errors; files of every length around the 16 KiB mapping threshold and beyond through update_mmap, update_mmap_rayon and update_reader(File); special paths (incl. a sysfs file whose mmap fails and large procfs files), named pipes fed in pieces by a writer thread, directory, missing path; Write adapters.",
   SPEC + DBG + "Special files are used only if present with stable finite content; Named pipes are fed a finite script by a writer thread that is always drained; endless devices are excluded (they would hang, which is not evidence).", "DESIGN.md §3 C11"),
 "C14": C("exhaustive sweeps over decomposed value spaces + proptest, independent hex codec as oracle",
   "Exploration with exhaustive sub-spaces: every byte value at every position of a hash (all conversions incl. serde JSON/CBOR, the legacy CBOR byte string and a non-self-describing bincode-layout format), every byte value at every position of a valid hex string, all lengths 0..=130, from_slice for all lengths 0..=100, all 256 single-bit pairs, all 32640 two-bit pairs, equal differences over every lane subset, slices that extend a hash's own bytes; plus random inputs.",
   "Trusts the independent hex codec in the harness, serde_json and ciborium. Wrong-length serde inputs are not asserted (the property does not state their fate). Timing of equality is out of scope.", "DESIGN.md §3 C14"),
 "C15": C("exhaustive walk of the published vectors + model-based property testing of reference_impl histories",
   "Every field of /repo/test_vectors/test_vectors.json (read at run time) is checked against the spec model, the frozen official copy, generate_json(), reference_impl, the optimized crate and both C builds (exhaustive, 105 entries + structure); reference_impl::Hasher histories (modes, update splits, output lengths 0..3000 and now and then 16 KiB / 200 KB / 4 MiB+) vs spec and the crate.",
   SPEC + "The frozen copy in oracle/ (SHA-256 recorded) is what 'published' means here.", "DESIGN.md §3 C15"),
 "C16": C("model-based property testing: trait-driven hasher in lockstep with an inherent twin and the spec model",
   "Exploration over histories of every method of digest 0.11's Update, FixedOutput(+Reset), ExtendableOutput(+Reset), XofReader (read in patterned pieces), Reset, Digest, DynDigest, KeyInit and Mac (incl. verify* with correct/tampered tags) against a twin driven by inherent methods; outputs, count() and the state left behind compared after every call; guts::ChunkState/parent_cv vs spec chunk/parent CVs and root hashes over the 64-bit counter lattice.",
   SPEC + DBG + "guts is_root is only generated with chunk counter 0 (the only root chunk the spec defines).", "DESIGN.md §3 C16"),
 "C17": C("metamorphic property testing (Debug) + memory-snapshot search guided by the spec model (zeroize)",
   "Debug: one history shape with two independent secret assignments must format byte-identically for Hasher (after every update), OutputReader and guts::ChunkState. Zeroize: the spec model lists the secret strings an object may hold (keys, every tree-node CV, running chunk CV, buffered block, root node CV/block); raw object bytes are snapshotted and after zeroize() no 8-byte window of any secret may remain; in a second sub the object is boxed, zeroized and dropped unread, and the harness's global allocator (engine/spyalloc) shows what the block held when it was freed (a wipe that the optimiser removes as a dead store is only visible there).",
   SPEC + "Reads object memory through raw pointers from zero-initialised storage; only distinctive windows (>=6 distinct bytes) are searched; the search must find at least one resident secret before zeroize, otherwise the case is an engine error, not a pass.", "DESIGN.md §3 C17"),
}


CHECKS.update({
 "C08": C("property-based testing over schedule scripts: scripted fork-join (hook 2 and the C TBB seam) + real rayon pools, serial twin and spec as oracle",
   "Exploration over (mode, forced SIMD level, prefix, input, suffix) x schedule, where the harness owns the order of the two halves of every recursive split: left-first / right-first / truly concurrent on two threads as a pure function of (seed, split-tree path), through a Join implementation compiled into the crate (hook 2) and through the C library's blake3_compress_subtree_wide_join_tbb seam implemented by the harness (scripted, or handed to rayon's work-stealing scheduler); plus update_rayon / update_mmap_rayon in pools of 1..16 threads (inputs up to 24 MiB quick / 64 MiB thorough, pool sizes that are not powers of two over-weighted), and a clang ThreadSanitizer driver over the C TBB seam with every split concurrent. The multithreaded hasher must be observationally equal to a serial twin (count, hash, XOF, again after a common suffix) and to the spec.",
   SPEC + DBG + "Schedules are sampled, not enumerated: the harness controls the ORDER of halves, not instruction interleavings; data-race freedom rests on the borrow checker for safe Rust and on C07 for kernels; real oneTBB is replaced by a pthread seam.", "DESIGN.md §3 C08"),
 "C12": C("property-based testing of the real b3sum binary over generated files, flag combinations and checkfiles (spec model + verdict-by-construction oracle)",
   "Exploration: the binary compiled from /repo/b3sum/src/main.rs is run on generated files with hostile names and generated combinations of --keyed/--derive-key/--length/--seek/--no-mmap/--num-threads/--raw/--no-names/--tag, and on standard input (pipe, file, file at an advanced offset), with missing / directory arguments among the files, and on unmappable files of this system; stdout must be byte-for-byte the documented line format around spec S[seek..seek+length]; its output is fed back to the real --check. Checkfiles are assembled from entries whose verdict is known by construction (good/stale/missing/directory/malformed, LF/CRLF, plain/tagged): exit status 0 iff all good, OK/FAILED lines in order, diagnostics and the WARNING count.",
   SPEC + "b3sum is built through engine/b3shim with a 6-line stand-in for the `wild` crate (not in the offline cache; on Unix wild::args_os is std::env::args_os) and without clap's wrap_help (help text only). Wording of diagnostics is not asserted.", "DESIGN.md §3 C12"),
 "C13": C("property-based round-trip and certificate checking on b3sum's own printer/parser functions + exhaustive single-character mutants",
   "Exploration in-process on b3sum's filepath_to_string and parse_check_line (main.rs is include!-d unchanged): 200k paths from a hostile alphabet in both forms and three terminators must be printed as one physical line in the documented escaped form, round-trip exactly when representable and be rejected otherwise; arbitrary text, near-valid lines and every single-character replace/insert/delete mutant of valid base lines must never panic, and any accepted line is verified as a certificate against the line text (so lines with several conceivable decompositions cannot raise false alarms); constructed members of the always-error classes must be rejected.",
   "Trusts the model of the documented escaping (\\\\, \\n, \\r) in the harness. Windows path normalisation is not executable here.", "DESIGN.md §3 C13"),
 "C18": C("property-based stress testing: generated per-thread programs on disjoint instances in fresh processes, spec oracle per thread",
   "Exploration: 2-32 threads, each with its own generated program over its own Rust and C instances (one-shots, update histories incl. rayon/mmap, XOF readers, C hashers of both builds, construct-update-finalize bursts, long streams through update_reader/mmap/rayon), released together by a barrier in a fresh child process so that CPU-feature detection itself races, repeated 12-40 times; every thread's outputs must equal the spec (= what it yields alone) and the process must exit cleanly; a second sub releases the threads of a fresh process by a spin barrier straight into their first library call (expected values prepared by the spec model beforehand) and repeats that with the C detection cache reset; a failing case counts only if it shows again in amplified re-executions; plus a ThreadSanitizer driver over the C API.",
   SPEC + "Detection of a race is probabilistic: interleavings are not controlled or enumerated (see DESIGN.md §7); a bug needing one specific interleaving can be missed.", "DESIGN.md §3 C18"),
})

NOT_YET = {}

def main():
    props = [json.loads(l) for l in open(os.path.join(ROOT, "properties.jsonl"))]
    ids = [p["id"] for p in props]
    checks = []
    for pid in ids:
        if pid not in CHECKS:
            continue
        c = CHECKS[pid]
        checks.append(dict(
            property_id=pid,
            quick_cmd="python3 verif.py check %s --tier quick" % pid,
            thorough_cmd="python3 verif.py check %s --tier thorough" % pid,
            evidence_file="evidence/%s.json" % pid,
            replay_cmd_template="python3 verif.py replay %s {path}" % pid,
            engine="vcheck",
            level_claimed=dict(category="exploration", text=c["text"], design_ref=c["design"]),
            level_note=c["note"],
            technique=c["technique"],
        ))
    na = []
    for pid in ids:
        if pid not in CHECKS:
            na.append(dict(property_id=pid, reason=NOT_YET.get(pid, "check not built yet in this revision of /verif (the technique applies; see DESIGN.md §3 for the planned check)")))
    man = dict(
        version=1,
        setup_cmd="python3 verif.py setup",
        hooks=dict(
            guard="blake3_team_blake3_verif",
            enable="RUSTFLAGS='--cfg blake3_team_blake3_verif' (set by verif.py for every harness build; harness crate at engine/harness depends on /repo by path)",
            baseline_off_cmd="cd /repo && cargo test --workspace --no-fail-fast --offline",
            source_commits=HOOK_COMMITS,
            add_only=True,
        ),
        engines=[
            dict(name="vcheck", path="engine/harness", serves_properties=sorted(CHECKS.keys()),
                 kind_free_text="Rust binary: proptest strategies + enumerated sweeps, interpreters for each API under test, independent spec model (engine/spec) as oracle; sharded over 16 processes by verif.py"),
        ],
        checks=checks,
        not_applicable=na,
        notes="All checks: exit 0 held / 1 violation with VIOLATION line / 2 engine problem (never a violation). VERIF_SEED seeds every generator; replays live in replays/. See DESIGN.md.",
    )
    with open(os.path.join(ROOT, "MANIFEST.json"), "w") as f:
        json.dump(man, f, indent=1)
    print("MANIFEST.json written: %d checks, %d not_applicable" % (len(checks), len(na)))

HOOK_COMMITS = ["2e5a821", "051af93", "2bf2226"]

if __name__ == "__main__":
    main()
