#!/usr/bin/env python3
"""Driver for the BLAKE3 property checks.

  verif.py setup                         build everything the quick checks need (offline)
  verif.py check <ID> [--tier quick|thorough]
  verif.py replay <ID> <replay-file>

Exit codes: 0 property held on everything explored; 1 violation (a line
"VIOLATION property=<id> replay=<path>" is printed); 2 engine problem (harness
does not build against the current tree, self-test failure, watchdog) — never a
violation.
"""
import concurrent.futures as cf
import json
import os
import shutil
import signal
import subprocess
import sys
import time

ROOT = os.path.dirname(os.path.abspath(__file__))
ENGINE = os.path.join(ROOT, "engine")
TARGET = os.path.join(ROOT, "target")
WORK = os.path.join(ROOT, "work")
EVID = os.path.join(ROOT, "evidence")
REPLAYS = os.path.join(ROOT, "replays")
KNOWN = os.path.join(ROOT, "known_findings.json")
GUARD = "blake3_team_blake3_verif"
NCPU = os.cpu_count() or 4

sys.path.insert(0, os.path.join(ROOT, "engine"))

# ---------------------------------------------------------------------------
# build flavours of the harness (each is the same crate with other features)
# ---------------------------------------------------------------------------
FLAVOURS = {
    #  name:   (cargo features, default-features, hooks, profile)
    "asm": (["cshim", "b3"], True, True, "release"),
    "intr": (["intr"], True, True, "release"),
    "pure": (["pure"], True, True, "release"),
    "nostd": ([], False, True, "release"),
    "plain": (["cshim", "b3"], True, True, "plain"),
    # compile-time SIMD ceilings with the hooks on (MAX_SIMD_DEGREE 4 and 1: array sizing and cfg-dependent code)
    "max_sse41": (["no_avx512", "no_avx2"], True, True, "release"),
    "portable_only": (["no_avx512", "no_avx2", "no_sse41", "no_sse2"], True, True, "release"),
    "stock_no_avx512": (["no_avx512"], True, False, "release"),
    "stock_no_avx2": (["no_avx512", "no_avx2"], True, False, "release"),
    "stock_no_sse41": (["no_avx512", "no_avx2", "no_sse41"], True, False, "release"),
    "stock_no_sse2": (["no_avx512", "no_avx2", "no_sse41", "no_sse2"], True, False, "release"),
    "stock": ([], True, False, "release"),
}

# which flavours a property's tiers run in
PROP_FLAVOURS = {
    "C01": {"quick": ["asm", "plain:4"], "thorough": ["asm", "plain"]},
    "C02": {"quick": ["asm", "plain:4"], "thorough": ["asm", "plain"]},
    "C03": {"quick": ["asm", "plain"], "thorough": ["asm", "plain"]},
    "C04": {"quick": ["asm", "intr", "pure", "nostd", "max_sse41", "portable_only"],
            "thorough": ["asm", "intr", "pure", "nostd", "max_sse41", "portable_only", "plain", "stock", "stock_no_avx512", "stock_no_avx2", "stock_no_sse41", "stock_no_sse2"]},
    "C05": {"quick": ["asm", "intr", "pure"], "thorough": ["asm", "intr", "pure", "plain"]},
    "C06": {"quick": ["asm"], "thorough": ["asm", "plain"]},
    "C07": {"quick": ["asm"], "thorough": ["asm", "intr", "pure", "plain"]},
    "C08": {"quick": ["asm"], "thorough": ["asm", "intr", "plain"]},
    "C09": {"quick": ["asm", "plain"], "thorough": ["asm", "plain"]},
    "C10": {"quick": ["asm", "plain"], "thorough": ["asm", "plain"]},
    "C11": {"quick": ["asm", "plain:4"], "thorough": ["asm", "plain"]},
    "C12": {"quick": ["asm"], "thorough": ["asm", "plain"]},
    "C13": {"quick": ["asm"], "thorough": ["asm", "plain"]},
    "C14": {"quick": ["asm", "plain:4"], "thorough": ["asm", "plain"]},
    "C15": {"quick": ["asm", "plain"], "thorough": ["asm", "plain"]},
    "C16": {"quick": ["asm", "plain"], "thorough": ["asm", "plain"]},
    "C17": {"quick": ["asm", "plain"], "thorough": ["asm", "plain"]},
    "C18": {"quick": ["asm"], "thorough": ["asm", "plain"]},
}

ALL_PROPS = ["C%02d" % i for i in range(1, 19)]


def log(*a):
    print(*a, file=sys.stderr, flush=True)


def cargo_env(hooks):
    env = dict(os.environ)
    env["CARGO_NET_OFFLINE"] = "true"
    flags = env.get("RUSTFLAGS", "")
    flags = " ".join(f for f in flags.split() if GUARD not in f and f != "--cfg")
    base = "--check-cfg cfg(%s)" % GUARD
    if hooks:
        base += " --cfg %s" % GUARD
    env["RUSTFLAGS"] = (flags + " " + base).strip()
    env.pop("CARGO_TARGET_DIR", None)
    return env


def flavour_bin(fl):
    _, _, _, profile = FLAVOURS[fl]
    return os.path.join(TARGET, fl, profile, "vcheck")


def build_flavour(fl):
    feats, default, hooks, profile = FLAVOURS[fl]
    cmd = ["cargo", "build", "-q", "--profile", profile, "-p", "vcheck", "--target-dir", os.path.join(TARGET, fl)]
    if "b3" in feats:
        cmd += ["-p", "b3shim"]  # also builds the real b3sum binary from /repo/b3sum/src/main.rs
    if not default:
        cmd.append("--no-default-features")
    if feats:
        cmd += ["--features", ",".join(feats)]
    t0 = time.time()
    p = subprocess.run(cmd, cwd=ENGINE, env=cargo_env(hooks), stdout=subprocess.PIPE, stderr=subprocess.STDOUT, text=True)
    dt = time.time() - t0
    if p.returncode != 0:
        return fl, False, p.stdout[-6000:], dt
    return fl, True, "", dt


def build_flavours(fls):
    """Rebuild (cargo fingerprints decide what is stale) the given flavours from /repo's working tree."""
    fls = list(dict.fromkeys(f.partition(":")[0] for f in fls))  # "name:k" (a fraction of the shards) builds as "name"
    ok = True
    # one cargo at a time gets all cores; two in parallel overlap their serial phases
    with cf.ThreadPoolExecutor(max_workers=2) as ex:
        for fl, good, out, dt in ex.map(build_flavour, fls):
            if good:
                log("[build] %-16s ok (%.1fs)" % (fl, dt))
            else:
                ok = False
                log("[build] %-16s FAILED\n%s" % (fl, out))
    return ok


# ---------------------------------------------------------------------------
# known findings
# ---------------------------------------------------------------------------
def load_known():
    if not os.path.exists(KNOWN):
        return []
    with open(KNOWN) as f:
        return json.load(f).get("findings", [])


# ---------------------------------------------------------------------------
# running shards
# ---------------------------------------------------------------------------
def run_job(job):
    """job = dict(flavour, prop, tier, seed, shard, nshards, out, timeout, extra)"""
    binp = flavour_bin(job["flavour"])
    crumb = job["out"] + ".crumb"
    cmd = [binp, "shard", job["prop"], "--tier", job["tier"], "--seed", str(job["seed"]), "--shard", str(job["shard"]),
           "--nshards", str(job["nshards"]), "--out", job["out"], "--replay-dir", REPLAYS]
    cmd += job.get("extra", [])
    env = dict(os.environ)
    env["VCHECK_BREADCRUMB"] = crumb
    env["VERIF_ROOT"] = ROOT
    env["VERIF_WORK"] = WORK
    env.setdefault("RAYON_NUM_THREADS", "3")  # 16 shard processes share the cores; explicit pools are built where pool size matters
    # keep big buffers on the heap instead of mmap/munmap per case (page-fault storms across 16 processes)
    env.setdefault("MALLOC_MMAP_THRESHOLD_", "1073741824")
    env.setdefault("MALLOC_TRIM_THRESHOLD_", "2147483648")
    env.setdefault("MALLOC_TOP_PAD_", "268435456")
    for p in (job["out"], crumb):
        if os.path.exists(p):
            os.remove(p)
    t0 = time.time()
    try:
        p = subprocess.run(cmd, env=env, stdout=subprocess.PIPE, stderr=subprocess.PIPE, text=True, timeout=job["timeout"])
        rc, out, err = p.returncode, p.stdout, p.stderr
    except subprocess.TimeoutExpired as e:
        rc, out, err = "timeout", "", (e.stderr or b"").decode("utf8", "replace") if isinstance(e.stderr, bytes) else (e.stderr or "")
    return dict(job=job, rc=rc, stdout=out, stderr=err, wall=time.time() - t0, crumb=crumb)


def crumb_to_replay(prop, crumb_path, why):
    """A shard died on a signal: the breadcrumb holds the case that was executing."""
    try:
        with open(crumb_path) as f:
            doc = json.load(f)
    except Exception:
        return None
    doc["message"] = why
    os.makedirs(REPLAYS, exist_ok=True)
    name = "%s-%s-crash-%08x.json" % (prop, doc.get("sub", "unknown"), abs(hash(json.dumps(doc, sort_keys=True))) & 0xFFFFFFFF)
    path = os.path.join(REPLAYS, name)
    with open(path, "w") as f:
        json.dump(doc, f, indent=1)
    return path


def merge_results(prop, tier, seed, job_results, t_start, extra_cov=None, extra_violations=None, extra_known=None, assumptions=None):
    subs = {}
    engine_errors = []
    violations = list(extra_violations or [])
    builds = set()
    for jr in job_results:
        job = jr["job"]
        rc = jr["rc"]
        doc = None
        if os.path.exists(job["out"]):
            try:
                with open(job["out"]) as f:
                    doc = json.load(f)
            except Exception as e:  # partial file
                doc = None
        if rc == "timeout":
            engine_errors.append("watchdog: shard %s/%s of %s exceeded %ss" % (job["flavour"], job["shard"], prop, job["timeout"]))
            continue
        if isinstance(rc, int) and rc < 0:
            signame = signal.Signals(-rc).name if -rc in [s.value for s in signal.Signals] else str(-rc)
            rp = crumb_to_replay(prop, jr["crumb"], "harness process killed by %s while executing this case (flavour %s)" % (signame, job["flavour"]))
            if rp:
                violations.append(dict(sub="crash", message="process died with %s" % signame, replay=rp, flavour=job["flavour"]))
            else:
                engine_errors.append("shard %s/%s died with %s and left no breadcrumb: %s" % (job["flavour"], job["shard"], signame, jr["stderr"][-500:]))
            continue
        if rc not in (0, 1) or doc is None:
            engine_errors.append("shard %s/%s exit %s: %s" % (job["flavour"], job["shard"], rc, jr["stderr"][-800:]))
            continue
        builds.add(doc.get("build", "?"))
        for r in doc["results"]:
            key = r["sub"]
            s = subs.setdefault(key, dict(sub=key, evaluations=0, nontrivial=0, fps=set(), classes={}, samples=[], excluded_known=0,
                                          exhaustive=r.get("exhaustive", False), wall_s=0.0, notes=[], rule=r.get("rule", ""), flavours=set()))
            s["evaluations"] += r["evaluations"]
            s["nontrivial"] += r["nontrivial"]
            s["fps"].update(r["nontrivial_fps"])
            for k, v in r["classes"].items():
                s["classes"][k] = s["classes"].get(k, 0) + v
            if len(s["samples"]) < 6:
                s["samples"].extend(r["samples"][: 6 - len(s["samples"])])
            s["excluded_known"] += r.get("excluded_known", 0)
            s["wall_s"] = max(s["wall_s"], r["wall_s"])
            s["flavours"].add(job["flavour"])
            for n in r.get("notes", []):
                if n.startswith("ENGINE-ABORT"):
                    engine_errors.append("%s: %s" % (key, n))
                elif n not in s["notes"]:
                    s["notes"].append(n)
            for v in r["violations"]:
                v = dict(v)
                v["flavour"] = job["flavour"]
                violations.append(v)
    evaluations = sum(s["evaluations"] for s in subs.values())
    distinct = sum(len(s["fps"]) for s in subs.values())
    samples = []
    for s in subs.values():
        for c in s["samples"][:3]:
            samples.append({"sub": s["sub"], "case": c})
    per_sub = []
    for s in subs.values():
        per_sub.append(dict(sub=s["sub"], evaluations=s["evaluations"], nontrivial=s["nontrivial"], distinct_nontrivial=len(s["fps"]),
                            classes=dict(sorted(s["classes"].items())), excluded_known=s["excluded_known"], exhaustive=s["exhaustive"],
                            max_shard_wall_s=round(s["wall_s"], 2), rule=s["rule"], notes=s["notes"], flavours=sorted(s["flavours"])))
    cov = dict(
        evaluations=evaluations,
        distinct_nontrivial=distinct,
        rule=" || ".join("%s: %s" % (s["sub"], s["rule"]) for s in subs.values()),
        samples=samples,
        per_sub=per_sub,
        builds=sorted(builds),
        exhaustive=False,
        excluded_by_known_findings=sum(s["excluded_known"] for s in subs.values()),
    )
    if extra_cov:
        for k, v in extra_cov.items():
            if k in ("evaluations", "distinct_nontrivial"):
                cov[k] += v
            elif k == "samples":
                cov["samples"].extend(v)
            elif k == "rule":
                cov["rule"] += " || " + v
            else:
                cov[k] = v
    ev = dict(
        property_id=prop,
        tier=tier,
        seed=seed,
        level="exploration",
        coverage=cov,
        assumptions=(assumptions or []) + [
            "the independent spec model (engine/spec) is correct; it is re-validated against the frozen official test vectors at the start of every shard",
            "held = no counterexample among the generated cases; absence of violations elsewhere is not established",
        ],
        wall_s=round(time.time() - t_start, 2),
        violations=len(violations),
        engine_errors=engine_errors,
        known_findings=extra_known or [],
    )
    return ev, violations, engine_errors


def write_evidence(prop, ev):
    os.makedirs(EVID, exist_ok=True)
    path = os.path.join(EVID, "%s.json" % prop)
    tmp = path + ".tmp"
    with open(tmp, "w") as f:
        json.dump(ev, f, indent=1, sort_keys=False)
    os.replace(tmp, path)


def plan_jobs(prop, tier, seed, flavours, nshards=None, extra=None):
    os.makedirs(os.path.join(WORK, prop), exist_ok=True)
    jobs = []
    ns = nshards or NCPU
    timeout = 3600 if tier == "quick" else 6 * 3600
    for fl in flavours:
        # "name:k" = only the first k of the ns shards of that flavour (a fraction of its cases: secondary flavours of the quick tier)
        fl, _, part = fl.partition(":")
        for i in range(min(ns, int(part)) if part else ns):
            jobs.append(dict(flavour=fl, prop=prop, tier=tier, seed=seed, shard=i, nshards=ns, timeout=timeout,
                             out=os.path.join(WORK, prop, "%s-%s-%d.json" % (tier, fl, i)), extra=list(extra or [])))
    return jobs


def run_jobs(jobs, workers=None):
    with cf.ThreadPoolExecutor(max_workers=workers or NCPU) as ex:
        return list(ex.map(run_job, jobs))


def run_regress(prop, flavour):
    """Replay the committed minimal reproductions of earlier failures (they bypass proptest)."""
    d = os.path.join(REPLAYS, "regress")
    viol = []
    n = 0
    if not os.path.isdir(d):
        return viol, n
    for name in sorted(os.listdir(d)):
        if not name.startswith(prop + "-") or not name.endswith(".json"):
            continue
        path = os.path.join(d, name)
        p = subprocess.run([flavour_bin(flavour), "replay", path, "--strict"], stdout=subprocess.PIPE, stderr=subprocess.PIPE, text=True,
                           env=dict(os.environ, VERIF_ROOT=ROOT, VERIF_WORK=WORK))
        n += 1
        if p.returncode == 1 or p.returncode < 0:
            viol.append(dict(sub="regress", message=p.stdout[-400:], replay=path, flavour=flavour))
        elif p.returncode != 0:
            log("[regress] %s: engine exit %s %s" % (name, p.returncode, p.stderr[-300:]))
    return viol, n


def check(prop, tier, seed):
    t0 = time.time()
    if prop not in PROP_FLAVOURS:
        log("ENGINE-ERROR: property %s has no registered check" % prop)
        return 2
    import extras  # property-specific steps outside the vcheck binary
    flavours = PROP_FLAVOURS[prop][tier]
    if not build_flavours([f.partition(":")[0] for f in flavours]):
        log("ENGINE-ERROR: harness does not build against the current /repo tree")
        return 2
    pre = extras.before(prop, tier, seed)
    if pre.get("engine_error"):
        log("ENGINE-ERROR: %s" % pre["engine_error"])
        return 2
    jobs = plan_jobs(prop, tier, seed, flavours, nshards=pre.get("nshards"), extra=pre.get("extra_args"))
    results = run_jobs(jobs, workers=pre.get("workers"))
    post = extras.after(prop, tier, seed)
    reg_viol, reg_n = run_regress(prop, flavours[0].partition(":")[0])
    post.setdefault("violations", []).extend(reg_viol)
    post.setdefault("coverage", {})["regression_replays"] = reg_n
    ev, violations, engine_errors = merge_results(
        prop, tier, seed, results, t0,
        extra_cov=post.get("coverage"), extra_violations=post.get("violations"), extra_known=post.get("known"),
        assumptions=post.get("assumptions"))
    if post.get("engine_error"):
        engine_errors.append(post["engine_error"])
    write_evidence(prop, ev)
    for k in post.get("known", []):
        print("KNOWN-FINDING: property=%s %s" % (prop, k))
    for v in violations:
        log("[%s] violation in %s (%s): %s" % (prop, v.get("sub"), v.get("flavour", "-"), v.get("message", "")[:600]))
    seen = set()
    for v in violations:
        if v["replay"] in seen:
            continue
        seen.add(v["replay"])
        print("VIOLATION property=%s replay=%s" % (prop, v["replay"]))
    log("[%s] tier=%s seed=%d evaluations=%d distinct_nontrivial=%d violations=%d wall=%.1fs" % (
        prop, tier, seed, ev["coverage"]["evaluations"], ev["coverage"]["distinct_nontrivial"], len(violations), time.time() - t0))
    if violations:
        return 1
    if engine_errors:
        for e in engine_errors:
            log("ENGINE-ERROR: %s" % e)
        return 2
    return 0


def replay(prop, path):
    import extras
    r = extras.replay(prop, path)
    if r is not None:
        return r
    with open(path) as f:
        doc = json.load(f)
    flavours = PROP_FLAVOURS.get(prop, {}).get("thorough", ["asm"])
    fl = doc.get("flavour")
    cands = [fl] if fl in FLAVOURS else flavours
    if not build_flavours(cands):
        log("ENGINE-ERROR: harness does not build against the current /repo tree")
        return 2
    worst = 0
    for fl in cands:
        p = subprocess.run([flavour_bin(fl), "replay", path, "--strict"], env=dict(os.environ, VERIF_ROOT=ROOT, VERIF_WORK=WORK))
        rc = p.returncode
        if rc < 0:
            print("VIOLATION property=%s replay=%s" % (prop, path))
            rc = 1
        if rc == 1:
            return 1
        worst = max(worst, rc)
    return worst


def setup():
    os.makedirs(TARGET, exist_ok=True)
    os.makedirs(WORK, exist_ok=True)
    fls = []
    for p, tiers in PROP_FLAVOURS.items():
        fls += tiers["quick"]
    ok = build_flavours(fls)
    import extras
    ok = extras.setup() and ok
    return 0 if ok else 2


def parse_seed(s):
    """Any VERIF_SEED value is accepted: decimal/0x integers in [0, 2^31-1) are used
    as they are (so recorded seeds replay), anything else (negative, huge, text) is
    folded deterministically into that range - a malformed seed must never turn into
    a failing check."""
    s = (s or "").strip()
    if not s:
        return 0
    try:
        v = int(s, 0)
    except ValueError:
        try:
            v = int(s)
        except ValueError:
            import zlib
            v = zlib.crc32(s.encode("utf-8", "replace")) | (1 << 40)
    m = (1 << 31) - 1
    return v if 0 <= v < m else abs(v) % m


def main():
    a = sys.argv[1:]
    if not a:
        print(__doc__)
        return 2
    seed = parse_seed(os.environ.get("VERIF_SEED", ""))
    if a[0] == "setup":
        return setup()
    if a[0] == "check":
        prop = a[1]
        tier = os.environ.get("VERIF_TIER", "quick")
        if "--tier" in a:
            tier = a[a.index("--tier") + 1]
        if tier not in ("quick", "thorough"):
            tier = "quick"
        return check(prop, tier, seed)
    if a[0] == "replay":
        return replay(a[1], a[2])
    if a[0] == "build":
        return 0 if build_flavours(a[1:] or ["asm"]) else 2
    print(__doc__)
    return 2


if __name__ == "__main__":
    sys.exit(main())
