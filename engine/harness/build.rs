//! Builds symbol-prefixed variants of the C library and assembly kernels from
//! /repo/c *as it is at build time* (cargo re-runs this script whenever a file
//! there changes), plus the register-sentinel trampolines.
//!
//!   ca_  : blake3.c + dispatch + portable, -DBLAKE3_TESTING, Unix assembly kernels
//!   ci_  : same C files, C intrinsics kernels (sse2/sse41/avx2/avx512 .c files)
//!   cr_/cri_ : ca_/ci_ with -DNDEBUG (release builds)
//!   cn1_..cn5_ : ci_ with BLAKE3_NO_SSE41 / NO_AVX512 / NO_AVX512+NO_AVX2 / all four NO_* (portable only) / NO_SSE2
//!   ct_  : ca_ with -DBLAKE3_USE_TBB; the parallel-join seam is implemented by the harness
//!   w64_ : the four *_windows_gnu.S files assembled to ELF (Win64 calling convention)
use std::path::{Path, PathBuf};
use std::process::Command;

fn run(cmd: &mut Command) {
    let st = cmd.status().unwrap_or_else(|e| panic!("cannot run {:?}: {}", cmd, e));
    if !st.success() {
        panic!("command failed: {:?}", cmd);
    }
}

fn out_of(cmd: &mut Command) -> String {
    let o = cmd.output().unwrap_or_else(|e| panic!("cannot run {:?}: {}", cmd, e));
    if !o.status.success() {
        panic!("command failed: {:?}\n{}", cmd, String::from_utf8_lossy(&o.stderr));
    }
    String::from_utf8_lossy(&o.stdout).to_string()
}

fn cc(out: &Path, cdir: &Path, src: &str, flags: &[&str]) -> PathBuf {
    let obj = out.join(format!("{}.o", src.replace('.', "_")));
    let mut c = Command::new("gcc");
    c.arg("-c").arg("-O3").arg("-fPIC").arg("-g0").arg("-I").arg(cdir);
    for f in flags {
        c.arg(f);
    }
    c.arg(cdir.join(src)).arg("-o").arg(&obj);
    run(&mut c);
    obj
}

fn variant(out_dir: &Path, cdir: &Path, prefix: &str, srcs: &[(&str, Vec<&str>)], extra_undefined: &[&str]) {
    let vdir = out_dir.join(prefix);
    let _ = std::fs::remove_dir_all(&vdir);
    std::fs::create_dir_all(&vdir).unwrap();
    let mut objs = Vec::new();
    for (src, flags) in srcs {
        objs.push(cc(&vdir, cdir, src, flags));
    }
    let merged = vdir.join("merged.o");
    let mut ld = Command::new("ld");
    ld.arg("-r").arg("-o").arg(&merged);
    for o in &objs {
        ld.arg(o);
    }
    run(&mut ld);
    let syms = out_of(Command::new("nm").arg("-g").arg("--defined-only").arg(&merged));
    let mut map = String::new();
    for line in syms.lines() {
        if let Some(name) = line.split_whitespace().last() {
            map.push_str(&format!("{} {}{}\n", name, prefix, name));
        }
    }
    for u in extra_undefined {
        map.push_str(&format!("{} {}{}\n", u, prefix, u));
    }
    let mapf = vdir.join("syms.map");
    std::fs::write(&mapf, map).unwrap();
    let renamed = vdir.join("renamed.o");
    run(Command::new("objcopy").arg(format!("--redefine-syms={}", mapf.display())).arg(&merged).arg(&renamed));
    let lib = out_dir.join(format!("libb3{}.a", prefix.trim_end_matches('_')));
    let _ = std::fs::remove_file(&lib);
    run(Command::new("ar").arg("rcs").arg(&lib).arg(&renamed));
    println!("cargo:rustc-link-lib=static=b3{}", prefix.trim_end_matches('_'));
}

fn main() {
    println!("cargo:rerun-if-changed=build.rs");
    println!("cargo:rerun-if-changed=csrc");
    println!("cargo:rerun-if-env-changed=VERIF_REPO");
    if std::env::var_os("CARGO_FEATURE_CSHIM").is_none() {
        return;
    }
    let repo = std::env::var("VERIF_REPO").unwrap_or_else(|_| "/repo".to_string());
    let cdir = PathBuf::from(&repo).join("c");
    println!("cargo:rerun-if-changed={}", cdir.display());
    for e in std::fs::read_dir(&cdir).expect("read /repo/c") {
        let p = e.unwrap().path();
        if p.is_file() {
            println!("cargo:rerun-if-changed={}", p.display());
        }
    }
    let out_dir = PathBuf::from(std::env::var("OUT_DIR").unwrap());
    println!("cargo:rustc-link-search=native={}", out_dir.display());

    let t = "-DBLAKE3_TESTING";
    let unix_asm = |v: &mut Vec<(&'static str, Vec<&'static str>)>| {
        v.push(("blake3_sse2_x86-64_unix.S", vec![]));
        v.push(("blake3_sse41_x86-64_unix.S", vec![]));
        v.push(("blake3_avx2_x86-64_unix.S", vec![]));
        v.push(("blake3_avx512_x86-64_unix.S", vec![]));
    };
    // ca_
    let mut ca = vec![("blake3.c", vec![t]), ("blake3_dispatch.c", vec![t]), ("blake3_portable.c", vec![t])];
    unix_asm(&mut ca);
    variant(&out_dir, &cdir, "ca_", &ca, &[]);
    // ci_
    let ci = vec![
        ("blake3.c", vec![t]),
        ("blake3_dispatch.c", vec![t]),
        ("blake3_portable.c", vec![t]),
        ("blake3_sse2.c", vec![t, "-msse2"]),
        ("blake3_sse41.c", vec![t, "-msse4.1"]),
        ("blake3_avx2.c", vec![t, "-mavx2"]),
        ("blake3_avx512.c", vec![t, "-mavx512f", "-mavx512vl"]),
    ];
    variant(&out_dir, &cdir, "ci_", &ci, &[]);
    // release-style builds (-DNDEBUG: assert() compiles to nothing) of both kernel families
    let nd = "-DNDEBUG";
    let mut cr = vec![("blake3.c", vec![t, nd]), ("blake3_dispatch.c", vec![t, nd]), ("blake3_portable.c", vec![t, nd])];
    unix_asm(&mut cr);
    variant(&out_dir, &cdir, "cr_", &cr, &[]);
    let cri: Vec<(&str, Vec<&str>)> = ci.iter().map(|(f, fl)| (*f, fl.iter().copied().chain([nd]).collect())).collect();
    variant(&out_dir, &cdir, "cri_", &cri, &[]);
    // C intrinsics builds with the documented BLAKE3_NO_* switches (other dispatch and fallback code is compiled)
    let no = |defs: &[&'static str], skip: &[&str]| -> Vec<(&'static str, Vec<&'static str>)> {
        ci.iter().filter(|(f, _)| !skip.contains(f)).map(|(f, fl)| (*f, fl.iter().copied().chain(defs.iter().copied()).collect())).collect()
    };
    variant(&out_dir, &cdir, "cn1_", &no(&["-DBLAKE3_NO_SSE41"], &["blake3_sse41.c"]), &[]);
    variant(&out_dir, &cdir, "cn2_", &no(&["-DBLAKE3_NO_AVX512"], &["blake3_avx512.c"]), &[]);
    variant(&out_dir, &cdir, "cn3_", &no(&["-DBLAKE3_NO_AVX512", "-DBLAKE3_NO_AVX2"], &["blake3_avx512.c", "blake3_avx2.c"]), &[]);
    variant(&out_dir, &cdir, "cn4_", &no(&["-DBLAKE3_NO_AVX512", "-DBLAKE3_NO_AVX2", "-DBLAKE3_NO_SSE41", "-DBLAKE3_NO_SSE2"], &["blake3_avx512.c", "blake3_avx2.c", "blake3_sse41.c", "blake3_sse2.c"]), &[]);
    variant(&out_dir, &cdir, "cn5_", &no(&["-DBLAKE3_NO_SSE2"], &["blake3_sse2.c"]), &[]);
    // ct_
    let tbb = "-DBLAKE3_USE_TBB";
    let mut ct = vec![("blake3.c", vec![t, tbb]), ("blake3_dispatch.c", vec![t, tbb]), ("blake3_portable.c", vec![t, tbb])];
    unix_asm(&mut ct);
    variant(&out_dir, &cdir, "ct_", &ct, &["blake3_compress_subtree_wide_join_tbb"]);
    // w64_
    let w = vec![
        ("blake3_sse2_x86-64_windows_gnu.S", vec!["-Drdata=rodata"]),
        ("blake3_sse41_x86-64_windows_gnu.S", vec!["-Drdata=rodata"]),
        ("blake3_avx2_x86-64_windows_gnu.S", vec!["-Drdata=rodata"]),
        ("blake3_avx512_x86-64_windows_gnu.S", vec!["-Drdata=rodata"]),
    ];
    variant(&out_dir, &cdir, "w64_", &w, &[]);

    // trampolines + guard helpers (our own code)
    let me = PathBuf::from(std::env::var("CARGO_MANIFEST_DIR").unwrap()).join("csrc");
    let tdir = out_dir.join("tramp");
    let _ = std::fs::create_dir_all(&tdir);
    let obj = tdir.join("tramp.o");
    run(Command::new("gcc").arg("-c").arg("-fPIC").arg(me.join("tramp.S")).arg("-o").arg(&obj));
    let lib = out_dir.join("libveriftramp.a");
    let _ = std::fs::remove_file(&lib);
    run(Command::new("ar").arg("rcs").arg(&lib).arg(&obj));
    println!("cargo:rustc-link-lib=static=veriftramp");
}
