//! SIMD levels: forcing the crate-wide platform (hook 1) and enumerating what this CPU/build can run.

use blake3::platform::Platform;
use serde::{Deserialize, Serialize};
use std::sync::OnceLock;

#[derive(Clone, Copy, Debug, Serialize, Deserialize, PartialEq, Eq, PartialOrd, Ord)]
pub enum Level {
    Portable = 1,
    Sse2 = 2,
    Sse41 = 3,
    Avx2 = 4,
    Avx512 = 5,
}

pub const ALL_LEVELS: [Level; 5] = [Level::Portable, Level::Sse2, Level::Sse41, Level::Avx2, Level::Avx512];

impl Level {
    pub fn debug_name(self) -> &'static str {
        match self {
            Level::Portable => "Portable",
            Level::Sse2 => "SSE2",
            Level::Sse41 => "SSE41",
            Level::Avx2 => "AVX2",
            Level::Avx512 => "AVX512",
        }
    }
    pub fn degree(self) -> usize {
        match self {
            Level::Portable => 1,
            Level::Sse2 | Level::Sse41 => 4,
            Level::Avx2 => 8,
            Level::Avx512 => 16,
        }
    }
    pub fn cpu_has(self) -> bool {
        match self {
            Level::Portable => true,
            Level::Sse2 => std::is_x86_feature_detected!("sse2"),
            Level::Sse41 => std::is_x86_feature_detected!("sse4.1"),
            Level::Avx2 => std::is_x86_feature_detected!("avx2"),
            Level::Avx512 => std::is_x86_feature_detected!("avx512f") && std::is_x86_feature_detected!("avx512vl"),
        }
    }
}

pub const BUILD: &str = if cfg!(not(blake3_team_blake3_verif)) {
    if cfg!(feature = "no_sse2") {
        "stock_no_sse2"
    } else if cfg!(feature = "no_sse41") {
        "stock_no_sse41"
    } else if cfg!(feature = "no_avx2") {
        "stock_no_avx2"
    } else if cfg!(feature = "no_avx512") {
        "stock_no_avx512"
    } else {
        "stock"
    }
} else if cfg!(feature = "no_sse2") {
    "portable_only"
} else if cfg!(feature = "no_avx2") {
    "max_sse41"
} else if cfg!(feature = "intr") {
    "intr"
} else if cfg!(feature = "pure") {
    "pure"
} else if cfg!(not(feature = "full")) {
    "nostd"
} else if cfg!(not(debug_assertions)) {
    "plain"
} else {
    "asm"
};

#[cfg(blake3_team_blake3_verif)]
pub fn force(level: Option<Level>) {
    blake3::platform::verif_force_platform(level.map(|l| l as u8).unwrap_or(0));
}

#[cfg(not(blake3_team_blake3_verif))]
pub fn force(_level: Option<Level>) {}

pub const HOOKS: bool = cfg!(blake3_team_blake3_verif);

/// The Platform value for a level, if this build has the variant and the CPU supports it.
pub fn platform_of(level: Level) -> Option<Platform> {
    if !level.cpu_has() {
        return None;
    }
    match level {
        Level::Portable => Some(Platform::portable()),
        Level::Sse2 => Platform::sse2(),
        Level::Sse41 => Platform::sse41(),
        Level::Avx2 => Platform::avx2(),
        Level::Avx512 => {
            // Platform::avx512() only exists when the build has AVX-512 kernels; go through the hook.
            if !HOOKS {
                return None;
            }
            force(Some(Level::Avx512));
            let p = Platform::detect();
            force(None);
            if format!("{:?}", p) == "AVX512" {
                Some(p)
            } else {
                None
            }
        }
    }
}

/// Levels that can be forced in this build on this CPU (hook on), in ascending order.
pub fn available() -> &'static Vec<Level> {
    static A: OnceLock<Vec<Level>> = OnceLock::new();
    A.get_or_init(|| {
        let mut v = Vec::new();
        if HOOKS {
            for l in ALL_LEVELS {
                if !l.cpu_has() {
                    continue;
                }
                force(Some(l));
                let ok = format!("{:?}", Platform::detect()) == l.debug_name();
                force(None);
                if ok {
                    v.push(l);
                }
            }
        }
        v
    })
}

/// Run `f` with the crate forced to `level` (no-op without hooks).
pub fn with_level<R>(level: Level, f: impl FnOnce() -> R) -> R {
    struct Reset;
    impl Drop for Reset {
        fn drop(&mut self) {
            force(None);
        }
    }
    force(Some(level));
    let _r = Reset;
    f()
}

/// Static tag "cfg=<build>:<level>" for evidence histograms.
pub fn cfg_tag(level: Level) -> &'static str {
    static T: OnceLock<Vec<&'static str>> = OnceLock::new();
    let t = T.get_or_init(|| {
        ALL_LEVELS
            .iter()
            .map(|l| {
                let s: &'static str = Box::leak(format!("cfg={}:{}", BUILD, l.debug_name()).into_boxed_str());
                s
            })
            .collect()
    });
    t[level as usize - 1]
}

/// What Platform::detect() reports right now.
pub fn detected_name() -> String {
    format!("{:?}", Platform::detect())
}
