//! Library part of the harness: generators, interpreters, oracles and the runner.
//! `vcheck` (src/main.rs) and the cargo-fuzz targets in /verif/fuzz both link it.
#![allow(clippy::too_many_arguments)]

pub mod cjoin;
pub mod cshim;
#[cfg(feature = "full")]
pub mod fixbin;
pub mod fuzz;
pub mod gen;
pub mod guard;
pub mod hist;
pub mod kernels;
pub mod levels;
pub mod props;
pub mod runner;
pub mod selftest;
