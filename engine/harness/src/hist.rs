//! Building blocks for call histories: size specifications that are resolved
//! against the running total (so boundary-completing updates are frequent and
//! still shrink), scripted readers, scratch files.

use crate::gen::splitmix;
use proptest::prelude::*;
use serde::{Deserialize, Serialize};

/// A size specification, resolved against the number of bytes absorbed so far
/// by the receiving instance. Pure function of (spec, count).
#[derive(Clone, Debug, Serialize, Deserialize, PartialEq, Eq)]
pub enum Size {
    Zero,
    Abs(u32),
    /// up to the end of the current 64-byte block, plus delta
    ToBlockEnd(i8),
    /// up to the end of the current 1024-byte chunk, plus delta
    ToChunkEnd(i8),
    /// exactly 2^j chunks (whatever the prefix), plus delta bytes
    Pow2Chunks(u8, i8),
    /// up to the next multiple of 2^j chunks in the total count, plus delta
    ToPow2Boundary(u8, i8),
    /// k * degree chunks with degree = 2^d, plus delta
    SimdMultiple(u8, u8, i8),
}

impl Size {
    pub fn resolve(&self, count: u64, max: usize) -> usize {
        let c = count as i64;
        let v: i64 = match *self {
            Size::Zero => 0,
            Size::Abs(n) => n as i64,
            Size::ToBlockEnd(d) => (64 - c % 64) + d as i64,
            Size::ToChunkEnd(d) => (1024 - c % 1024) + d as i64,
            Size::Pow2Chunks(j, d) => (1024i64 << (j % 12)) + d as i64,
            Size::ToPow2Boundary(j, d) => {
                let m = 1024i64 << (j % 12);
                (m - c % m) + d as i64
            }
            Size::SimdMultiple(dg, k, d) => (1024i64 << (dg % 5)) * (1 + (k % 4) as i64) + d as i64,
        };
        core::cmp::min(core::cmp::max(v, 0) as usize, max)
    }
}

pub fn small_delta() -> BoxedStrategy<i8> {
    prop_oneof![4 => Just(0i8), 2 => Just(1i8), 2 => Just(-1i8), 1 => Just(63i8), 1 => Just(64i8), 1 => Just(65i8), 1 => Just(-64i8), 1 => -70i8..=70].boxed()
}

pub fn size(max_abs: u32) -> BoxedStrategy<Size> {
    prop_oneof![
        1 => Just(Size::Zero),
        3 => (0u32..=200).prop_map(Size::Abs),
        3 => (0u32..=5000).prop_map(Size::Abs),
        2 => (0u32..=max_abs).prop_map(Size::Abs),
        2 => small_delta().prop_map(Size::ToBlockEnd),
        3 => small_delta().prop_map(Size::ToChunkEnd),
        3 => (0u8..=8, small_delta()).prop_map(|(j, d)| Size::Pow2Chunks(j, d)),
        3 => (0u8..=8, small_delta()).prop_map(|(j, d)| Size::ToPow2Boundary(j, d)),
        3 => (0u8..=4, 0u8..=3, small_delta()).prop_map(|(a, b, d)| Size::SimdMultiple(a, b, d)),
    ]
    .boxed()
}

/// A reader that yields `data` in short reads whose sizes come from a seed.
pub struct ShortReader<'a> {
    pub data: &'a [u8],
    pub pos: usize,
    pub state: u64,
    pub reads: u64,
}

impl<'a> ShortReader<'a> {
    pub fn new(data: &'a [u8], seed: u64) -> Self {
        ShortReader { data, pos: 0, state: seed, reads: 0 }
    }
}

#[cfg(feature = "full")]
impl<'a> std::io::Read for ShortReader<'a> {
    fn read(&mut self, buf: &mut [u8]) -> std::io::Result<usize> {
        self.reads += 1;
        let left = self.data.len() - self.pos;
        if left == 0 || buf.is_empty() {
            return Ok(0);
        }
        let r = splitmix(&mut self.state);
        let cap = core::cmp::min(buf.len(), left);
        let n = match r % 4 {
            0 => cap,
            1 => 1 + (r >> 8) as usize % core::cmp::min(cap, 70),
            2 => 1 + (r >> 8) as usize % core::cmp::min(cap, 2100),
            _ => 1 + (r >> 8) as usize % cap,
        };
        buf[..n].copy_from_slice(&self.data[self.pos..self.pos + n]);
        self.pos += n;
        Ok(n)
    }
}

/// Scratch directory for temp files (never under /tmp: VERIF_WORK, default /verif/work).
pub fn scratch_dir() -> std::path::PathBuf {
    let base = std::env::var("VERIF_WORK").unwrap_or_else(|_| "/verif/work".to_string());
    let p = std::path::PathBuf::from(base).join("tmp").join(format!("p{}", std::process::id()));
    let _ = std::fs::create_dir_all(&p);
    p
}

pub struct ScratchFile {
    pub path: std::path::PathBuf,
}

impl ScratchFile {
    pub fn with_bytes(tag: &str, data: &[u8]) -> std::io::Result<Self> {
        use std::sync::atomic::{AtomicU64, Ordering};
        static N: AtomicU64 = AtomicU64::new(0);
        let path = scratch_dir().join(format!("{}-{}", tag, N.fetch_add(1, Ordering::Relaxed)));
        std::fs::write(&path, data)?;
        Ok(ScratchFile { path })
    }
}

impl Drop for ScratchFile {
    fn drop(&mut self) {
        let _ = std::fs::remove_file(&self.path);
    }
}
