//! FFI to the symbol-prefixed variants of /repo/c built by build.rs, and the
//! register-sentinel trampolines.
#![allow(dead_code)]

use crate::kernels::Kernel;

#[cfg(not(feature = "cshim"))]
pub fn raw_kernels() -> Vec<Box<dyn Kernel>> {
    Vec::new()
}

#[cfg(feature = "cshim")]
pub use imp::*;

#[cfg(feature = "cshim")]
mod imp {
    use super::Kernel;
    use crate::levels::Level;
    use std::os::raw::{c_char, c_int, c_void};

    #[repr(C)]
    #[derive(Clone, Copy)]
    pub struct CChunkState {
        pub cv: [u32; 8],
        pub chunk_counter: u64,
        pub buf: [u8; 64],
        pub buf_len: u8,
        pub blocks_compressed: u8,
        pub flags: u8,
    }

    #[repr(C)]
    #[derive(Clone, Copy)]
    pub struct CHasher {
        pub key: [u32; 8],
        pub chunk: CChunkState,
        pub cv_stack_len: u8,
        pub cv_stack: [u8; 55 * 32],
    }

    pub const CHASHER_SIZE: usize = core::mem::size_of::<CHasher>();

    impl CHasher {
        pub fn zeroed() -> Self {
            unsafe { core::mem::zeroed() }
        }
        pub fn as_bytes(&self) -> &[u8] {
            unsafe { core::slice::from_raw_parts(self as *const _ as *const u8, CHASHER_SIZE) }
        }
    }

    pub type FnCip = unsafe extern "C" fn(*mut u32, *const u8, u8, u64, u8);
    pub type FnCxof = unsafe extern "C" fn(*const u32, *const u8, u8, u64, u8, *mut u8);
    pub type FnHm = unsafe extern "C" fn(*const *const u8, usize, usize, *const u32, u64, bool, u8, u8, u8, *mut u8);
    pub type FnXm = unsafe extern "C" fn(*const u32, *const u8, u8, u64, u8, *mut u8, usize);
    pub type WFnCip = unsafe extern "win64" fn(*mut u32, *const u8, u8, u64, u8);
    pub type WFnCxof = unsafe extern "win64" fn(*const u32, *const u8, u8, u64, u8, *mut u8);
    pub type WFnHm = unsafe extern "win64" fn(*const *const u8, usize, usize, *const u32, u64, bool, u8, u8, u8, *mut u8);

    macro_rules! c_api {
        ($($init:ident $init_keyed:ident $init_dk:ident $init_dk_raw:ident $update:ident $finalize:ident $finalize_seek:ident $reset:ident $features:ident $degree:ident $wide:ident;)*) => {
            extern "C" {
                $(
                pub fn $init(h: *mut CHasher);
                pub fn $init_keyed(h: *mut CHasher, key: *const u8);
                pub fn $init_dk(h: *mut CHasher, ctx: *const c_char);
                pub fn $init_dk_raw(h: *mut CHasher, ctx: *const c_void, len: usize);
                pub fn $update(h: *mut CHasher, input: *const c_void, len: usize);
                pub fn $finalize(h: *const CHasher, out: *mut u8, len: usize);
                pub fn $finalize_seek(h: *const CHasher, seek: u64, out: *mut u8, len: usize);
                pub fn $reset(h: *mut CHasher);
                pub static mut $features: c_int;
                pub fn $degree() -> usize;
                pub fn $wide(input: *const u8, input_len: usize, key: *const u32, chunk_counter: u64, flags: u8, out: *mut u8, use_tbb: bool) -> usize;
                )*
            }
        };
    }

    c_api! {
        ca_blake3_hasher_init ca_blake3_hasher_init_keyed ca_blake3_hasher_init_derive_key ca_blake3_hasher_init_derive_key_raw ca_blake3_hasher_update ca_blake3_hasher_finalize ca_blake3_hasher_finalize_seek ca_blake3_hasher_reset ca_g_cpu_features ca_blake3_simd_degree ca_blake3_compress_subtree_wide;
        ci_blake3_hasher_init ci_blake3_hasher_init_keyed ci_blake3_hasher_init_derive_key ci_blake3_hasher_init_derive_key_raw ci_blake3_hasher_update ci_blake3_hasher_finalize ci_blake3_hasher_finalize_seek ci_blake3_hasher_reset ci_g_cpu_features ci_blake3_simd_degree ci_blake3_compress_subtree_wide;
        ct_blake3_hasher_init ct_blake3_hasher_init_keyed ct_blake3_hasher_init_derive_key ct_blake3_hasher_init_derive_key_raw ct_blake3_hasher_update ct_blake3_hasher_finalize ct_blake3_hasher_finalize_seek ct_blake3_hasher_reset ct_g_cpu_features ct_blake3_simd_degree ct_blake3_compress_subtree_wide;
        cr_blake3_hasher_init cr_blake3_hasher_init_keyed cr_blake3_hasher_init_derive_key cr_blake3_hasher_init_derive_key_raw cr_blake3_hasher_update cr_blake3_hasher_finalize cr_blake3_hasher_finalize_seek cr_blake3_hasher_reset cr_g_cpu_features cr_blake3_simd_degree cr_blake3_compress_subtree_wide;
        cri_blake3_hasher_init cri_blake3_hasher_init_keyed cri_blake3_hasher_init_derive_key cri_blake3_hasher_init_derive_key_raw cri_blake3_hasher_update cri_blake3_hasher_finalize cri_blake3_hasher_finalize_seek cri_blake3_hasher_reset cri_g_cpu_features cri_blake3_simd_degree cri_blake3_compress_subtree_wide;
        cn1_blake3_hasher_init cn1_blake3_hasher_init_keyed cn1_blake3_hasher_init_derive_key cn1_blake3_hasher_init_derive_key_raw cn1_blake3_hasher_update cn1_blake3_hasher_finalize cn1_blake3_hasher_finalize_seek cn1_blake3_hasher_reset cn1_g_cpu_features cn1_blake3_simd_degree cn1_blake3_compress_subtree_wide;
        cn2_blake3_hasher_init cn2_blake3_hasher_init_keyed cn2_blake3_hasher_init_derive_key cn2_blake3_hasher_init_derive_key_raw cn2_blake3_hasher_update cn2_blake3_hasher_finalize cn2_blake3_hasher_finalize_seek cn2_blake3_hasher_reset cn2_g_cpu_features cn2_blake3_simd_degree cn2_blake3_compress_subtree_wide;
        cn3_blake3_hasher_init cn3_blake3_hasher_init_keyed cn3_blake3_hasher_init_derive_key cn3_blake3_hasher_init_derive_key_raw cn3_blake3_hasher_update cn3_blake3_hasher_finalize cn3_blake3_hasher_finalize_seek cn3_blake3_hasher_reset cn3_g_cpu_features cn3_blake3_simd_degree cn3_blake3_compress_subtree_wide;
        cn4_blake3_hasher_init cn4_blake3_hasher_init_keyed cn4_blake3_hasher_init_derive_key cn4_blake3_hasher_init_derive_key_raw cn4_blake3_hasher_update cn4_blake3_hasher_finalize cn4_blake3_hasher_finalize_seek cn4_blake3_hasher_reset cn4_g_cpu_features cn4_blake3_simd_degree cn4_blake3_compress_subtree_wide;
        cn5_blake3_hasher_init cn5_blake3_hasher_init_keyed cn5_blake3_hasher_init_derive_key cn5_blake3_hasher_init_derive_key_raw cn5_blake3_hasher_update cn5_blake3_hasher_finalize cn5_blake3_hasher_finalize_seek cn5_blake3_hasher_reset cn5_g_cpu_features cn5_blake3_simd_degree cn5_blake3_compress_subtree_wide;
    }

    extern "C" {
        pub fn ct_blake3_hasher_update_tbb(h: *mut CHasher, input: *const c_void, len: usize);
    }

    /// The C API of one library variant.
    #[derive(Clone, Copy)]
    pub struct CApi {
        pub name: &'static str,
        pub init: unsafe extern "C" fn(*mut CHasher),
        pub init_keyed: unsafe extern "C" fn(*mut CHasher, *const u8),
        pub init_derive_key: unsafe extern "C" fn(*mut CHasher, *const c_char),
        pub init_derive_key_raw: unsafe extern "C" fn(*mut CHasher, *const c_void, usize),
        pub update: unsafe extern "C" fn(*mut CHasher, *const c_void, usize),
        pub finalize: unsafe extern "C" fn(*const CHasher, *mut u8, usize),
        pub finalize_seek: unsafe extern "C" fn(*const CHasher, u64, *mut u8, usize),
        pub reset: unsafe extern "C" fn(*mut CHasher),
        pub features: *mut c_int,
        pub degree: unsafe extern "C" fn() -> usize,
        /// BLAKE3_NO_* switches this build was compiled with: bit 0 NO_SSE2, 1 NO_SSE41, 2 NO_AVX2, 3 NO_AVX512
        pub no: u8,
    }
    unsafe impl Sync for CApi {}
    unsafe impl Send for CApi {}

    macro_rules! capi {
        ($name:expr, $init:ident $init_keyed:ident $init_dk:ident $init_dk_raw:ident $update:ident $finalize:ident $finalize_seek:ident $reset:ident $features:ident $degree:ident) => {
            CApi {
                name: $name,
                init: $init,
                init_keyed: $init_keyed,
                init_derive_key: $init_dk,
                init_derive_key_raw: $init_dk_raw,
                update: $update,
                finalize: $finalize,
                finalize_seek: $finalize_seek,
                reset: $reset,
                features: core::ptr::addr_of_mut!($features),
                degree: $degree,
                no: 0,
            }
        };
    }

    pub fn api_asm() -> CApi {
        capi!("c:asm", ca_blake3_hasher_init ca_blake3_hasher_init_keyed ca_blake3_hasher_init_derive_key ca_blake3_hasher_init_derive_key_raw ca_blake3_hasher_update ca_blake3_hasher_finalize ca_blake3_hasher_finalize_seek ca_blake3_hasher_reset ca_g_cpu_features ca_blake3_simd_degree)
    }
    pub fn api_intr() -> CApi {
        capi!("c:intrinsics", ci_blake3_hasher_init ci_blake3_hasher_init_keyed ci_blake3_hasher_init_derive_key ci_blake3_hasher_init_derive_key_raw ci_blake3_hasher_update ci_blake3_hasher_finalize ci_blake3_hasher_finalize_seek ci_blake3_hasher_reset ci_g_cpu_features ci_blake3_simd_degree)
    }
    pub fn api_cr() -> CApi {
        capi!("c:asm(NDEBUG)", cr_blake3_hasher_init cr_blake3_hasher_init_keyed cr_blake3_hasher_init_derive_key cr_blake3_hasher_init_derive_key_raw cr_blake3_hasher_update cr_blake3_hasher_finalize cr_blake3_hasher_finalize_seek cr_blake3_hasher_reset cr_g_cpu_features cr_blake3_simd_degree)
    }
    pub fn api_cri() -> CApi {
        capi!("c:intrinsics(NDEBUG)", cri_blake3_hasher_init cri_blake3_hasher_init_keyed cri_blake3_hasher_init_derive_key cri_blake3_hasher_init_derive_key_raw cri_blake3_hasher_update cri_blake3_hasher_finalize cri_blake3_hasher_finalize_seek cri_blake3_hasher_reset cri_g_cpu_features cri_blake3_simd_degree)
    }
    pub fn api_cn1() -> CApi {
        CApi { no: 2, ..capi!("c:intrinsics(NO_SSE41)", cn1_blake3_hasher_init cn1_blake3_hasher_init_keyed cn1_blake3_hasher_init_derive_key cn1_blake3_hasher_init_derive_key_raw cn1_blake3_hasher_update cn1_blake3_hasher_finalize cn1_blake3_hasher_finalize_seek cn1_blake3_hasher_reset cn1_g_cpu_features cn1_blake3_simd_degree) }
    }
    pub fn api_cn2() -> CApi {
        CApi { no: 8, ..capi!("c:intrinsics(NO_AVX512)", cn2_blake3_hasher_init cn2_blake3_hasher_init_keyed cn2_blake3_hasher_init_derive_key cn2_blake3_hasher_init_derive_key_raw cn2_blake3_hasher_update cn2_blake3_hasher_finalize cn2_blake3_hasher_finalize_seek cn2_blake3_hasher_reset cn2_g_cpu_features cn2_blake3_simd_degree) }
    }
    pub fn api_cn3() -> CApi {
        CApi { no: 12, ..capi!("c:intrinsics(NO_AVX512,NO_AVX2)", cn3_blake3_hasher_init cn3_blake3_hasher_init_keyed cn3_blake3_hasher_init_derive_key cn3_blake3_hasher_init_derive_key_raw cn3_blake3_hasher_update cn3_blake3_hasher_finalize cn3_blake3_hasher_finalize_seek cn3_blake3_hasher_reset cn3_g_cpu_features cn3_blake3_simd_degree) }
    }
    pub fn api_cn4() -> CApi {
        CApi { no: 15, ..capi!("c:portable-only(all NO_*)", cn4_blake3_hasher_init cn4_blake3_hasher_init_keyed cn4_blake3_hasher_init_derive_key cn4_blake3_hasher_init_derive_key_raw cn4_blake3_hasher_update cn4_blake3_hasher_finalize cn4_blake3_hasher_finalize_seek cn4_blake3_hasher_reset cn4_g_cpu_features cn4_blake3_simd_degree) }
    }
    pub fn api_cn5() -> CApi {
        CApi { no: 1, ..capi!("c:intrinsics(NO_SSE2)", cn5_blake3_hasher_init cn5_blake3_hasher_init_keyed cn5_blake3_hasher_init_derive_key cn5_blake3_hasher_init_derive_key_raw cn5_blake3_hasher_update cn5_blake3_hasher_finalize cn5_blake3_hasher_finalize_seek cn5_blake3_hasher_reset cn5_g_cpu_features cn5_blake3_simd_degree) }
    }
    /// Every C library build: index 0 = assembly, 1 = C intrinsics, then the NDEBUG and BLAKE3_NO_* builds.
    pub fn all_apis() -> Vec<CApi> {
        vec![api_asm(), api_intr(), api_cr(), api_cri(), api_cn1(), api_cn2(), api_cn3(), api_cn4(), api_cn5()]
    }
    pub fn api_tbb() -> CApi {
        capi!("c:tbb-seam", ct_blake3_hasher_init ct_blake3_hasher_init_keyed ct_blake3_hasher_init_derive_key ct_blake3_hasher_init_derive_key_raw ct_blake3_hasher_update ct_blake3_hasher_finalize ct_blake3_hasher_finalize_seek ct_blake3_hasher_reset ct_g_cpu_features ct_blake3_simd_degree)
    }

    // cpu_feature bits of blake3_dispatch.c
    pub const F_SSE2: c_int = 1 << 0;
    pub const F_SSSE3: c_int = 1 << 1;
    pub const F_SSE41: c_int = 1 << 2;
    pub const F_AVX: c_int = 1 << 3;
    pub const F_AVX2: c_int = 1 << 4;
    pub const F_AVX512F: c_int = 1 << 5;
    pub const F_AVX512VL: c_int = 1 << 6;
    pub const F_UNDEFINED: c_int = 1 << 30;

    impl CApi {
        /// blake3_simd_degree() of this build under the feature mask of level `l` (mirrors the documented dispatch order)
        pub fn expected_degree(&self, l: Level) -> usize {
            if l >= Level::Avx512 && self.no & 8 == 0 {
                16
            } else if l >= Level::Avx2 && self.no & 4 == 0 {
                8
            } else if l >= Level::Sse41 && self.no & 2 == 0 {
                4
            } else if l >= Level::Sse2 && self.no & 1 == 0 {
                4
            } else {
                1
            }
        }
    }

    /// The feature mask the dispatcher would compute on a CPU whose best level is `l`.
    pub fn mask_for(l: Level) -> c_int {
        match l {
            Level::Portable => 0,
            Level::Sse2 => F_SSE2,
            Level::Sse41 => F_SSE2 | F_SSSE3 | F_SSE41,
            Level::Avx2 => F_SSE2 | F_SSSE3 | F_SSE41 | F_AVX | F_AVX2,
            Level::Avx512 => F_SSE2 | F_SSSE3 | F_SSE41 | F_AVX | F_AVX2 | F_AVX512F | F_AVX512VL,
        }
    }

    macro_rules! kernels_c {
        ($($cip:ident $cxof:ident $hm:ident;)*) => {
            extern "C" { $(
                pub fn $cip(cv: *mut u32, block: *const u8, block_len: u8, counter: u64, flags: u8);
                pub fn $cxof(cv: *const u32, block: *const u8, block_len: u8, counter: u64, flags: u8, out: *mut u8);
                pub fn $hm(inputs: *const *const u8, n: usize, blocks: usize, key: *const u32, counter: u64, inc: bool, flags: u8, fs: u8, fe: u8, out: *mut u8);
            )* }
        };
    }
    kernels_c! {
        ca_blake3_compress_in_place_portable ca_blake3_compress_xof_portable ca_blake3_hash_many_portable;
        ca_blake3_compress_in_place_sse2 ca_blake3_compress_xof_sse2 ca_blake3_hash_many_sse2;
        ca_blake3_compress_in_place_sse41 ca_blake3_compress_xof_sse41 ca_blake3_hash_many_sse41;
        ca_blake3_compress_in_place_avx512 ca_blake3_compress_xof_avx512 ca_blake3_hash_many_avx512;
        ci_blake3_compress_in_place_sse2 ci_blake3_compress_xof_sse2 ci_blake3_hash_many_sse2;
        ci_blake3_compress_in_place_sse41 ci_blake3_compress_xof_sse41 ci_blake3_hash_many_sse41;
        ci_blake3_compress_in_place_avx512 ci_blake3_compress_xof_avx512 ci_blake3_hash_many_avx512;
    }
    extern "C" {
        pub fn ca_blake3_hash_many_avx2(inputs: *const *const u8, n: usize, blocks: usize, key: *const u32, counter: u64, inc: bool, flags: u8, fs: u8, fe: u8, out: *mut u8);
        pub fn cn1_blake3_hash_many_avx2(inputs: *const *const u8, n: usize, blocks: usize, key: *const u32, counter: u64, inc: bool, flags: u8, fs: u8, fe: u8, out: *mut u8);
        pub fn ci_blake3_hash_many_avx2(inputs: *const *const u8, n: usize, blocks: usize, key: *const u32, counter: u64, inc: bool, flags: u8, fs: u8, fe: u8, out: *mut u8);
        pub fn ca_blake3_xof_many_avx512(cv: *const u32, block: *const u8, block_len: u8, counter: u64, flags: u8, out: *mut u8, n: usize);
        pub fn ci_blake3_xof_many_avx512(cv: *const u32, block: *const u8, block_len: u8, counter: u64, flags: u8, out: *mut u8, n: usize);
        // dispatching entry points (honour g_cpu_features)
        pub fn ca_blake3_compress_in_place(cv: *mut u32, block: *const u8, block_len: u8, counter: u64, flags: u8);
        pub fn ca_blake3_compress_xof(cv: *const u32, block: *const u8, block_len: u8, counter: u64, flags: u8, out: *mut u8);
        pub fn ca_blake3_hash_many(inputs: *const *const u8, n: usize, blocks: usize, key: *const u32, counter: u64, inc: bool, flags: u8, fs: u8, fe: u8, out: *mut u8);
        pub fn ca_blake3_xof_many(cv: *const u32, block: *const u8, block_len: u8, counter: u64, flags: u8, out: *mut u8, n: usize);
    }
    extern "win64" {
        pub fn w64_blake3_compress_in_place_sse2(cv: *mut u32, block: *const u8, block_len: u8, counter: u64, flags: u8);
        pub fn w64_blake3_compress_xof_sse2(cv: *const u32, block: *const u8, block_len: u8, counter: u64, flags: u8, out: *mut u8);
        pub fn w64_blake3_hash_many_sse2(inputs: *const *const u8, n: usize, blocks: usize, key: *const u32, counter: u64, inc: bool, flags: u8, fs: u8, fe: u8, out: *mut u8);
        pub fn w64_blake3_compress_in_place_sse41(cv: *mut u32, block: *const u8, block_len: u8, counter: u64, flags: u8);
        pub fn w64_blake3_compress_xof_sse41(cv: *const u32, block: *const u8, block_len: u8, counter: u64, flags: u8, out: *mut u8);
        pub fn w64_blake3_hash_many_sse41(inputs: *const *const u8, n: usize, blocks: usize, key: *const u32, counter: u64, inc: bool, flags: u8, fs: u8, fe: u8, out: *mut u8);
        pub fn w64_blake3_hash_many_avx2(inputs: *const *const u8, n: usize, blocks: usize, key: *const u32, counter: u64, inc: bool, flags: u8, fs: u8, fe: u8, out: *mut u8);
        pub fn w64_blake3_compress_in_place_avx512(cv: *mut u32, block: *const u8, block_len: u8, counter: u64, flags: u8);
        pub fn w64_blake3_compress_xof_avx512(cv: *const u32, block: *const u8, block_len: u8, counter: u64, flags: u8, out: *mut u8);
        pub fn w64_blake3_hash_many_avx512(inputs: *const *const u8, n: usize, blocks: usize, key: *const u32, counter: u64, inc: bool, flags: u8, fs: u8, fe: u8, out: *mut u8);
    }

    extern "C" {
        pub fn verif_tramp_sysv(f: *const c_void, args: *const u64, out: *mut u64, pad: u64);
        pub fn verif_tramp_win64(f: *const c_void, args: *const u64, out: *mut u64, pad: u64);
    }

    #[derive(Clone, Copy, PartialEq, Eq, Debug)]
    pub enum Abi {
        SysV,
        Win64,
    }

    /// One set of raw kernels (addresses + calling convention).
    #[derive(Clone, Copy)]
    pub struct RawKernel {
        pub name: &'static str,
        pub level: Level,
        pub abi: Abi,
        /// true for hand-written assembly (ABI obligations are checked through the trampolines)
        pub asm: bool,
        pub cip: Option<*const c_void>,
        pub cxof: Option<*const c_void>,
        pub hm: *const c_void,
        pub xm: Option<*const c_void>,
    }
    unsafe impl Sync for RawKernel {}
    unsafe impl Send for RawKernel {}

    macro_rules! p {
        ($f:ident) => {
            $f as *const c_void
        };
    }

    pub fn raw_kernel_table() -> Vec<RawKernel> {
        use Abi::*;
        use Level::*;
        let all = vec![
            RawKernel { name: "c:portable", level: Portable, abi: SysV, asm: false, cip: Some(p!(ca_blake3_compress_in_place_portable)), cxof: Some(p!(ca_blake3_compress_xof_portable)), hm: p!(ca_blake3_hash_many_portable), xm: None },
            RawKernel { name: "asm-unix:sse2", level: Sse2, abi: SysV, asm: true, cip: Some(p!(ca_blake3_compress_in_place_sse2)), cxof: Some(p!(ca_blake3_compress_xof_sse2)), hm: p!(ca_blake3_hash_many_sse2), xm: None },
            RawKernel { name: "asm-unix:sse41", level: Sse41, abi: SysV, asm: true, cip: Some(p!(ca_blake3_compress_in_place_sse41)), cxof: Some(p!(ca_blake3_compress_xof_sse41)), hm: p!(ca_blake3_hash_many_sse41), xm: None },
            RawKernel { name: "asm-unix:avx2", level: Avx2, abi: SysV, asm: true, cip: None, cxof: None, hm: p!(ca_blake3_hash_many_avx2), xm: None },
            RawKernel { name: "asm-unix:avx512", level: Avx512, abi: SysV, asm: true, cip: Some(p!(ca_blake3_compress_in_place_avx512)), cxof: Some(p!(ca_blake3_compress_xof_avx512)), hm: p!(ca_blake3_hash_many_avx512), xm: Some(p!(ca_blake3_xof_many_avx512)) },
            RawKernel { name: "c-intrinsics:sse2", level: Sse2, abi: SysV, asm: false, cip: Some(p!(ci_blake3_compress_in_place_sse2)), cxof: Some(p!(ci_blake3_compress_xof_sse2)), hm: p!(ci_blake3_hash_many_sse2), xm: None },
            RawKernel { name: "c-intrinsics:sse41", level: Sse41, abi: SysV, asm: false, cip: Some(p!(ci_blake3_compress_in_place_sse41)), cxof: Some(p!(ci_blake3_compress_xof_sse41)), hm: p!(ci_blake3_hash_many_sse41), xm: None },
            RawKernel { name: "c-intrinsics:avx2", level: Avx2, abi: SysV, asm: false, cip: None, cxof: None, hm: p!(ci_blake3_hash_many_avx2), xm: None },
            RawKernel { name: "c-intrinsics(NO_SSE41):avx2", level: Avx2, abi: SysV, asm: false, cip: None, cxof: None, hm: p!(cn1_blake3_hash_many_avx2), xm: None },
            RawKernel { name: "c-intrinsics:avx512", level: Avx512, abi: SysV, asm: false, cip: Some(p!(ci_blake3_compress_in_place_avx512)), cxof: Some(p!(ci_blake3_compress_xof_avx512)), hm: p!(ci_blake3_hash_many_avx512), xm: Some(p!(ci_blake3_xof_many_avx512)) },
            RawKernel { name: "asm-windows-gnu:sse2", level: Sse2, abi: Win64, asm: true, cip: Some(p!(w64_blake3_compress_in_place_sse2)), cxof: Some(p!(w64_blake3_compress_xof_sse2)), hm: p!(w64_blake3_hash_many_sse2), xm: None },
            RawKernel { name: "asm-windows-gnu:sse41", level: Sse41, abi: Win64, asm: true, cip: Some(p!(w64_blake3_compress_in_place_sse41)), cxof: Some(p!(w64_blake3_compress_xof_sse41)), hm: p!(w64_blake3_hash_many_sse41), xm: None },
            RawKernel { name: "asm-windows-gnu:avx2", level: Avx2, abi: Win64, asm: true, cip: None, cxof: None, hm: p!(w64_blake3_hash_many_avx2), xm: None },
            RawKernel { name: "asm-windows-gnu:avx512", level: Avx512, abi: Win64, asm: true, cip: Some(p!(w64_blake3_compress_in_place_avx512)), cxof: Some(p!(w64_blake3_compress_xof_avx512)), hm: p!(w64_blake3_hash_many_avx512), xm: None },
        ];
        all.into_iter().filter(|k| k.level.cpu_has()).collect()
    }

    impl RawKernel {
        pub unsafe fn call_cip(&self, cv: *mut u32, block: *const u8, block_len: u8, counter: u64, flags: u8) -> bool {
            match (self.cip, self.abi) {
                (Some(f), Abi::SysV) => {
                    core::mem::transmute::<_, FnCip>(f)(cv, block, block_len, counter, flags);
                    true
                }
                (Some(f), Abi::Win64) => {
                    core::mem::transmute::<_, WFnCip>(f)(cv, block, block_len, counter, flags);
                    true
                }
                _ => false,
            }
        }
        pub unsafe fn call_cxof(&self, cv: *const u32, block: *const u8, block_len: u8, counter: u64, flags: u8, out: *mut u8) -> bool {
            match (self.cxof, self.abi) {
                (Some(f), Abi::SysV) => {
                    core::mem::transmute::<_, FnCxof>(f)(cv, block, block_len, counter, flags, out);
                    true
                }
                (Some(f), Abi::Win64) => {
                    core::mem::transmute::<_, WFnCxof>(f)(cv, block, block_len, counter, flags, out);
                    true
                }
                _ => false,
            }
        }
        pub unsafe fn call_hm(&self, inputs: *const *const u8, n: usize, blocks: usize, key: *const u32, counter: u64, inc: bool, flags: u8, fs: u8, fe: u8, out: *mut u8) {
            match self.abi {
                Abi::SysV => core::mem::transmute::<_, FnHm>(self.hm)(inputs, n, blocks, key, counter, inc, flags, fs, fe, out),
                Abi::Win64 => core::mem::transmute::<_, WFnHm>(self.hm)(inputs, n, blocks, key, counter, inc, flags, fs, fe, out),
            }
        }
        pub unsafe fn call_xm(&self, cv: *const u32, block: *const u8, block_len: u8, counter: u64, flags: u8, out: *mut u8, n: usize) -> bool {
            match self.xm {
                Some(f) => {
                    core::mem::transmute::<_, FnXm>(f)(cv, block, block_len, counter, flags, out, n);
                    true
                }
                None => false,
            }
        }
    }

    impl Kernel for RawKernel {
        fn name(&self) -> &'static str {
            self.name
        }
        fn compress_in_place(&self, cv: &mut [u32; 8], block: &[u8; 64], block_len: u8, counter: u64, flags: u8) -> bool {
            unsafe { self.call_cip(cv.as_mut_ptr(), block.as_ptr(), block_len, counter, flags) }
        }
        fn compress_xof(&self, cv: &[u32; 8], block: &[u8; 64], block_len: u8, counter: u64, flags: u8) -> Option<[u8; 64]> {
            let mut out = [0u8; 64];
            if unsafe { self.call_cxof(cv.as_ptr(), block.as_ptr(), block_len, counter, flags, out.as_mut_ptr()) } {
                Some(out)
            } else {
                None
            }
        }
        fn compress_xof_to(&self, cv: &[u32; 8], block: &[u8; 64], block_len: u8, counter: u64, flags: u8, out: *mut u8) -> bool {
            unsafe { self.call_cxof(cv.as_ptr(), block.as_ptr(), block_len, counter, flags, out) }
        }
        fn hash_many(&self, inputs: &[*const u8], blocks: usize, key: &[u32; 8], counter: u64, inc: bool, flags: u8, fs: u8, fe: u8, out: &mut [u8], need: usize) {
            assert!(out.len() >= need);
            unsafe { self.call_hm(inputs.as_ptr(), inputs.len(), blocks, key.as_ptr(), counter, inc, flags, fs, fe, out.as_mut_ptr()) }
        }
        fn xof_many(&self, cv: &[u32; 8], block: &[u8; 64], block_len: u8, counter: u64, flags: u8, out: &mut [u8], nblocks: usize) -> bool {
            assert!(out.len() >= nblocks * 64);
            unsafe { self.call_xm(cv.as_ptr(), block.as_ptr(), block_len, counter, flags, out.as_mut_ptr(), nblocks) }
        }
    }

    /// The parallel-join seam of the -DBLAKE3_USE_TBB build (ct_ variant), implemented by the
    /// harness instead of oneTBB: the order of the two halves is chosen by crate::cjoin.
    #[no_mangle]
    pub unsafe extern "C" fn ct_blake3_compress_subtree_wide_join_tbb(
        key: *const u32,
        flags: u8,
        use_tbb: bool,
        l_input: *const u8,
        l_input_len: usize,
        l_chunk_counter: u64,
        l_cvs: *mut u8,
        l_n: *mut usize,
        r_input: *const u8,
        r_input_len: usize,
        r_chunk_counter: u64,
        r_cvs: *mut u8,
        r_n: *mut usize,
    ) {
        crate::cjoin::join(
            use_tbb,
            move || *l_n = ct_blake3_compress_subtree_wide(l_input, l_input_len, key, l_chunk_counter, flags, l_cvs, use_tbb),
            move || *r_n = ct_blake3_compress_subtree_wide(r_input, r_input_len, key, r_chunk_counter, flags, r_cvs, use_tbb),
        );
    }

    pub fn raw_kernels() -> Vec<Box<dyn Kernel>> {
        raw_kernel_table().into_iter().map(|k| Box::new(k) as Box<dyn Kernel>).collect()
    }
}
