//! vcheck: property-based checks of BLAKE3 (/repo) against an independent spec model.
#![allow(clippy::too_many_arguments)]

use vcheck_lib::runner::{ShardCtx, Tier};
use vcheck_lib::{kernels, props, runner, selftest};

fn arg_val(args: &[String], name: &str) -> Option<String> {
    args.iter().position(|a| a == name).and_then(|i| args.get(i + 1).cloned())
}

fn main() {
    let args: Vec<String> = std::env::args().collect();
    if args.len() < 2 {
        eprintln!("usage: vcheck list <prop> | shard <prop> --tier T --seed N --shard i --nshards n --out FILE [--only sub] | replay <file> [--strict] | selftest | info");
        std::process::exit(2);
    }
    runner::install_quiet_panic_hook();
    match args[1].as_str() {
        "selftest" => match selftest::run() {
            Ok(n) => {
                println!("selftest ok: {} vector bytes compared", n);
            }
            Err(e) => {
                eprintln!("ENGINE-ERROR selftest: {}", e);
                std::process::exit(2);
            }
        },
        #[cfg(feature = "full")]
        "c18-child" => {
            let code = props::c18::child_main(&args[2]);
            std::process::exit(code);
        }
        #[cfg(feature = "full")]
        "c18-first" => {
            let code = props::c18::first_child_main(&args[2]);
            std::process::exit(code);
        }
        "fuzz-replay" => {
            // vcheck fuzz-replay <prop> <sub> --out FILE <corpus files or directories...>
            let prop = args[2].clone();
            let sub = args[3].clone();
            let out = arg_val(&args, "--out");
            let mut files: Vec<std::path::PathBuf> = Vec::new();
            let mut i = 4;
            while i < args.len() {
                if args[i] == "--out" {
                    i += 2;
                    continue;
                }
                let p = std::path::PathBuf::from(&args[i]);
                if p.is_dir() {
                    let mut v: Vec<_> = std::fs::read_dir(&p).map(|d| d.filter_map(|e| e.ok().map(|e| e.path())).filter(|p| p.is_file()).collect()).unwrap_or_default();
                    v.sort();
                    files.extend(v);
                } else if p.is_file() {
                    files.push(p);
                }
                i += 1;
            }
            let mut n = 0u64;
            let mut nontrivial = std::collections::BTreeSet::new();
            let mut classes: std::collections::BTreeMap<String, u64> = Default::default();
            let mut samples = Vec::new();
            let mut violations = Vec::new();
            for f in &files {
                let data = match std::fs::read(f) {
                    Ok(d) => d,
                    Err(_) => continue,
                };
                if let Some((case, cl, r)) = vcheck_lib::fuzz::one(&prop, &sub, &data, Tier::Quick) {
                    n += 1;
                    for t in &cl.tags {
                        *classes.entry((*t).to_string()).or_insert(0) += 1;
                    }
                    if cl.nontrivial {
                        if nontrivial.insert(runner::fingerprint(&case.to_string())) && samples.len() < 2 {
                            samples.push(case.clone());
                        }
                    }
                    if let Err(m) = r {
                        let fp = runner::fingerprint(&format!("{}{}", sub, case));
                        let path = format!("/verif/replays/{}-{}-corpus-{:016x}.json", prop, sub, fp);
                        let doc = serde_json::json!({"property": prop, "sub": sub, "message": m, "tier": "corpus", "seed": 0, "case": case, "corpus_file": f.display().to_string()});
                        let _ = std::fs::create_dir_all("/verif/replays");
                        let _ = std::fs::write(&path, serde_json::to_string_pretty(&doc).unwrap());
                        violations.push(serde_json::json!({"sub": format!("corpus:{}", sub), "message": m, "replay": path}));
                    }
                }
            }
            let doc = serde_json::json!({"property": prop, "sub": sub, "files": files.len(), "decoded": n, "distinct_nontrivial": nontrivial.len(), "classes": classes, "samples": samples, "violations": violations});
            if let Some(o) = out {
                std::fs::write(o, doc.to_string()).expect("write");
            } else {
                println!("{}", doc);
            }
            std::process::exit(if violations.is_empty() { 0 } else { 1 });
        }
        "kernels" => {
            for k in kernels::all_kernels() {
                println!("{}", k.name());
            }
        }
        "info" => {
            println!("{}", props::build_info());
        }
        "list" => {
            let prop = &args[2];
            for s in props::subs(prop) {
                println!("{}", s.name());
            }
        }
        "shard" => {
            let prop = args[2].clone();
            let tier = match arg_val(&args, "--tier").as_deref() {
                Some("thorough") => Tier::Thorough,
                _ => Tier::Quick,
            };
            let seed: u64 = arg_val(&args, "--seed").and_then(|s| s.parse().ok()).unwrap_or(0);
            let shard: u32 = arg_val(&args, "--shard").and_then(|s| s.parse().ok()).unwrap_or(0);
            let nshards: u32 = arg_val(&args, "--nshards").and_then(|s| s.parse().ok()).unwrap_or(1);
            let out = arg_val(&args, "--out").expect("--out");
            let only = arg_val(&args, "--only");
            let replay_dir = arg_val(&args, "--replay-dir").unwrap_or_else(|| "/verif/replays".to_string());
            if let Err(e) = selftest::run() {
                eprintln!("ENGINE-ERROR selftest: {}", e);
                std::process::exit(2);
            }
            let mut ctx = ShardCtx {
                prop: prop.clone(),
                tier,
                seed,
                shard,
                nshards,
                only: only.clone(),
                replay_dir,
                strict: args.iter().any(|a| a == "--strict"),
                breadcrumb: std::env::var("VCHECK_BREADCRUMB").ok(),
                results: Vec::new(),
            };
            let subs = props::subs(&prop);
            if subs.is_empty() {
                eprintln!("ENGINE-ERROR: no sub-checks for property {} in this build", prop);
                std::process::exit(2);
            }
            for s in subs {
                if let Some(o) = &only {
                    if o != s.name() {
                        continue;
                    }
                }
                s.run(&mut ctx);
            }
            let doc = serde_json::json!({
                "property": prop,
                "tier": tier.name(),
                "seed": seed,
                "shard": shard,
                "nshards": nshards,
                "build": props::build_info(),
                "results": ctx.results,
            });
            std::fs::write(&out, serde_json::to_string(&doc).unwrap()).expect("write shard output");
            let nviol: usize = ctx.results.iter().map(|r| r.violations.len()).sum();
            std::process::exit(if nviol > 0 { 1 } else { 0 });
        }
        "replay" => {
            let path = &args[2];
            let txt = std::fs::read_to_string(path).expect("read replay file");
            let doc: serde_json::Value = serde_json::from_str(&txt).expect("replay json");
            let prop = doc["property"].as_str().expect("property").to_string();
            let sub = doc["sub"].as_str().expect("sub").to_string();
            for s in props::subs(&prop) {
                if s.name() == sub {
                    match s.replay(&doc["case"]) {
                        Ok(()) => {
                            println!("replay: case holds (property={} sub={})", prop, sub);
                            std::process::exit(0);
                        }
                        Err(m) => {
                            println!("replay: FAILS: {}", m);
                            println!("VIOLATION property={} replay={}", prop, path);
                            std::process::exit(1);
                        }
                    }
                }
            }
            eprintln!("ENGINE-ERROR: sub {} of {} not available in this build", sub, prop);
            std::process::exit(2);
        }
        _ => {
            eprintln!("unknown command");
            std::process::exit(2);
        }
    }
}
