//! Guard-page buffers and fork-per-case execution.
#![allow(dead_code)]

use std::io::{Read, Write};
use std::os::unix::io::FromRawFd;

pub const PAGE: usize = 4096;
pub const CANARY: u8 = 0xE7;

#[derive(Clone, Copy, Debug, PartialEq, Eq)]
pub enum Place {
    /// buffer ends exactly where an inaccessible page begins (over-reads/over-writes fault)
    EndFlush,
    /// buffer starts exactly where an inaccessible page ends (under-runs fault)
    StartFlush,
}

/// `len` usable bytes with PROT_NONE pages on both sides of the mapping; the
/// buffer is flush against one of them, the open side carries a canary window.
///
/// Regions come from a pool that is mapped once in the parent process (children
/// of `in_child` inherit it), so a case costs no mmap/mprotect calls.
pub struct GuardBuf {
    base: *mut u8,
    map_len: usize,
    inner_len: usize,
    off: usize,
    pooled: bool,
    pub len: usize,
    pub place: Place,
}

const WINDOW: usize = 512;

struct Region {
    base: usize,
    inner_len: usize,
}

static POOL: std::sync::Mutex<Vec<Region>> = std::sync::Mutex::new(Vec::new());
static POOL_INIT: std::sync::Once = std::sync::Once::new();

unsafe fn map_region(inner_len: usize) -> *mut u8 {
    let map_len = inner_len + 2 * PAGE;
    let base = libc::mmap(core::ptr::null_mut(), map_len, libc::PROT_READ | libc::PROT_WRITE, libc::MAP_PRIVATE | libc::MAP_ANONYMOUS, -1, 0);
    assert!(base != libc::MAP_FAILED, "mmap failed");
    let base = base as *mut u8;
    assert_eq!(libc::mprotect(base as *mut _, PAGE, libc::PROT_NONE), 0);
    assert_eq!(libc::mprotect(base.add(PAGE + inner_len) as *mut _, PAGE, libc::PROT_NONE), 0);
    base
}

/// Map the region pool (call in the parent before forking children).
pub fn init_pool() {
    POOL_INIT.call_once(|| {
        let mut p = POOL.lock().unwrap();
        unsafe {
            for _ in 0..6 {
                p.push(Region { base: map_region(64 * PAGE) as usize, inner_len: 64 * PAGE });
            }
            for _ in 0..72 {
                p.push(Region { base: map_region(8 * PAGE) as usize, inner_len: 8 * PAGE });
            }
        }
    });
}

impl GuardBuf {
    pub fn new(len: usize, place: Place) -> GuardBuf {
        let need = core::cmp::max(PAGE, (len + PAGE - 1) / PAGE * PAGE);
        let (base, inner_len, pooled) = {
            let mut p = POOL.lock().unwrap();
            // smallest pooled region that fits (small regions are at the end of the vector)
            let idx = p.iter().rposition(|r| r.inner_len >= need);
            match idx {
                Some(i) => {
                    let r = p.remove(i);
                    (r.base as *mut u8, r.inner_len, true)
                }
                None => (unsafe { map_region(need) }, need, false),
            }
        };
        let off = match place {
            Place::EndFlush => inner_len - len,
            Place::StartFlush => 0,
        };
        let g = GuardBuf { base, map_len: inner_len + 2 * PAGE, inner_len, off, pooled, len, place };
        unsafe {
            let inner = g.base.add(PAGE);
            let lo = g.off.saturating_sub(WINDOW);
            core::ptr::write_bytes(inner.add(lo), CANARY, g.off - lo);
            let hi = core::cmp::min(inner_len, g.off + len + WINDOW);
            core::ptr::write_bytes(inner.add(g.off + len), CANARY, hi - (g.off + len));
            core::ptr::write_bytes(inner.add(g.off), 0, len);
        }
        g
    }
    pub fn with_bytes(data: &[u8], place: Place) -> GuardBuf {
        let mut g = GuardBuf::new(data.len(), place);
        g.as_mut_slice().copy_from_slice(data);
        g
    }
    pub fn ptr(&self) -> *mut u8 {
        unsafe { self.base.add(PAGE + self.off) }
    }
    pub fn as_slice(&self) -> &[u8] {
        unsafe { core::slice::from_raw_parts(self.ptr(), self.len) }
    }
    pub fn as_mut_slice(&mut self) -> &mut [u8] {
        unsafe { core::slice::from_raw_parts_mut(self.ptr(), self.len) }
    }
    /// true if the canary windows on the open side(s) of the buffer are untouched
    pub fn canary_intact(&self) -> bool {
        let inner = unsafe { core::slice::from_raw_parts(self.base.add(PAGE), self.inner_len) };
        let lo = self.off.saturating_sub(WINDOW);
        let hi = core::cmp::min(self.inner_len, self.off + self.len + WINDOW);
        inner[lo..self.off].iter().all(|&b| b == CANARY) && inner[self.off + self.len..hi].iter().all(|&b| b == CANARY)
    }
}

impl Drop for GuardBuf {
    fn drop(&mut self) {
        if self.pooled {
            POOL.lock().unwrap().push(Region { base: self.base as usize, inner_len: self.inner_len });
        } else {
            unsafe {
                libc::munmap(self.base as *mut _, self.map_len);
            }
        }
    }
}

static CHILD_FD: std::sync::atomic::AtomicI32 = std::sync::atomic::AtomicI32::new(-1);

/// In a forked one-shot child: tell the parent what is about to run.
fn progress_oneshot(what: &str) {
    let fd = CHILD_FD.load(std::sync::atomic::Ordering::Relaxed);
    if fd >= 0 {
        let line = format!("@{}\n", what);
        unsafe {
            libc::write(fd, line.as_ptr() as *const _, line.len());
        }
    }
}

/// Run `f` in a forked child. A fault (SIGSEGV/SIGBUS/SIGILL/SIGFPE/abort) in
/// the child is an ordinary failing result for the parent, so proptest can
/// shrink it. The calling process must be single-threaded.
pub fn in_child(f: impl FnOnce() -> Result<(), String>) -> Result<(), String> {
    init_pool();
    unsafe {
        let mut fds = [0i32; 2];
        if libc::pipe(fds.as_mut_ptr()) != 0 {
            return Err("ENGINE: pipe failed".into());
        }
        let pid = libc::fork();
        if pid < 0 {
            return Err("ENGINE: fork failed".into());
        }
        if pid == 0 {
            libc::close(fds[0]);
            libc::alarm(60);
            CHILD_FD.store(fds[1], std::sync::atomic::Ordering::Relaxed);
            let r = match std::panic::catch_unwind(std::panic::AssertUnwindSafe(f)) {
                Ok(r) => r,
                Err(_) => Err("panic in child".to_string()),
            };
            let mut w = std::fs::File::from_raw_fd(fds[1]);
            let msg = match r {
                Ok(()) => "\0OK".to_string(),
                Err(e) => format!("\0ERR{}", e),
            };
            let _ = w.write_all(msg.as_bytes());
            let _ = w.flush();
            drop(w);
            libc::_exit(0);
        }
        libc::close(fds[1]);
        let mut r = std::fs::File::from_raw_fd(fds[0]);
        let mut raw = Vec::new();
        let _ = r.read_to_end(&mut raw);
        drop(r);
        let all = String::from_utf8_lossy(&raw).to_string();
        let (prog, msg) = match all.find('\0') {
            Some(i) => (all[..i].to_string(), all[i + 1..].to_string()),
            None => (all.clone(), String::new()),
        };
        let last = prog.lines().filter(|l| l.starts_with('@')).last().map(|l| l[1..].to_string()).unwrap_or_default();
        let mut status = 0i32;
        loop {
            let w = libc::waitpid(pid, &mut status, 0);
            if w == pid {
                break;
            }
            if w < 0 && *libc::__errno_location() != libc::EINTR {
                return Err("ENGINE: waitpid failed".into());
            }
        }
        if libc::WIFSIGNALED(status) {
            let sig = libc::WTERMSIG(status);
            if sig == libc::SIGALRM {
                return Err("ENGINE: child exceeded its 60 s watchdog".into());
            }
            let name = match sig {
                libc::SIGSEGV => "SIGSEGV",
                libc::SIGBUS => "SIGBUS",
                libc::SIGILL => "SIGILL",
                libc::SIGFPE => "SIGFPE",
                libc::SIGABRT => "SIGABRT",
                _ => "signal",
            };
            return Err(format!("code under test crashed the process with {} (signal {}) while running: {}", name, sig, last));
        }
        if msg == "OK" {
            Ok(())
        } else if let Some(e) = msg.strip_prefix("ERR") {
            Err(e.to_string())
        } else {
            Err(format!("ENGINE: child exited with status {} without a verdict", status))
        }
    }
}

// ---------------------------------------------------------------------------
// Fork server: one long-lived child per check function executes the cases it is
// sent; only a crash costs a new fork. (fork-per-case does not scale on this
// kind of VM: concurrent forks serialise in the hypervisor.)
// ---------------------------------------------------------------------------
struct Server {
    pid: i32,
    to_child: i32,
    from_child: i32,
}

static SERVERS: std::sync::Mutex<Vec<(&'static str, Server)>> = std::sync::Mutex::new(Vec::new());

unsafe fn write_all_fd(fd: i32, mut b: &[u8]) -> bool {
    while !b.is_empty() {
        let n = libc::write(fd, b.as_ptr() as *const _, b.len());
        if n < 0 {
            if *libc::__errno_location() == libc::EINTR {
                continue;
            }
            return false;
        }
        b = &b[n as usize..];
    }
    true
}

unsafe fn read_exact_fd(fd: i32, buf: &mut [u8]) -> bool {
    let mut got = 0;
    while got < buf.len() {
        let n = libc::read(fd, buf[got..].as_mut_ptr() as *mut _, buf.len() - got);
        if n < 0 {
            if *libc::__errno_location() == libc::EINTR {
                continue;
            }
            return false;
        }
        if n == 0 {
            return false;
        }
        got += n as usize;
    }
    true
}

unsafe fn send_msg(fd: i32, kind: u8, payload: &[u8]) -> bool {
    let mut hdr = [0u8; 5];
    hdr[0] = kind;
    hdr[1..].copy_from_slice(&(payload.len() as u32).to_le_bytes());
    write_all_fd(fd, &hdr) && write_all_fd(fd, payload)
}

unsafe fn recv_msg(fd: i32) -> Option<(u8, Vec<u8>)> {
    let mut hdr = [0u8; 5];
    if !read_exact_fd(fd, &mut hdr) {
        return None;
    }
    let len = u32::from_le_bytes([hdr[1], hdr[2], hdr[3], hdr[4]]) as usize;
    let mut p = vec![0u8; len];
    if len > 0 && !read_exact_fd(fd, &mut p) {
        return None;
    }
    Some((hdr[0], p))
}

static SERVER_OUT_FD: std::sync::atomic::AtomicI32 = std::sync::atomic::AtomicI32::new(-1);

/// In a server child: progress note (what is about to run).
pub fn progress(what: &str) {
    let fd = SERVER_OUT_FD.load(std::sync::atomic::Ordering::Relaxed);
    if fd >= 0 {
        unsafe {
            send_msg(fd, b'P', what.as_bytes());
        }
        return;
    }
    progress_oneshot(what);
}

unsafe fn spawn_server<T: serde::de::DeserializeOwned>(f: fn(&T) -> Result<(), String>) -> Option<Server> {
    let mut a = [0i32; 2];
    let mut b = [0i32; 2];
    if libc::pipe(a.as_mut_ptr()) != 0 || libc::pipe(b.as_mut_ptr()) != 0 {
        return None;
    }
    let pid = libc::fork();
    if pid < 0 {
        return None;
    }
    if pid == 0 {
        libc::close(a[1]);
        libc::close(b[0]);
        // drop inherited servers' descriptors
        let inp = a[0];
        let out = b[1];
        SERVER_OUT_FD.store(out, std::sync::atomic::Ordering::Relaxed);
        loop {
            let (kind, payload) = match recv_msg(inp) {
                Some(m) => m,
                None => libc::_exit(0),
            };
            if kind != b'C' {
                libc::_exit(0);
            }
            libc::alarm(90);
            let verdict = match serde_json::from_slice::<T>(&payload) {
                Ok(case) => match std::panic::catch_unwind(std::panic::AssertUnwindSafe(|| f(&case))) {
                    Ok(Ok(())) => "OK".to_string(),
                    Ok(Err(e)) => format!("ERR{}", e),
                    Err(_) => "ERRpanic in child".to_string(),
                },
                Err(e) => format!("ERRENGINE: case decode in child: {}", e),
            };
            libc::alarm(0);
            if !send_msg(out, b'V', verdict.as_bytes()) {
                libc::_exit(0);
            }
        }
    }
    libc::close(a[0]);
    libc::close(b[1]);
    Some(Server { pid, to_child: a[1], from_child: b[0] })
}

/// Execute `f(case)` in the long-lived child registered under `key`.
pub fn in_server<T: serde::Serialize + serde::de::DeserializeOwned>(key: &'static str, case: &T, f: fn(&T) -> Result<(), String>) -> Result<(), String> {
    init_pool();
    let payload = serde_json::to_vec(case).map_err(|e| format!("ENGINE: encode case: {}", e))?;
    let mut servers = SERVERS.lock().unwrap();
    let idx = match servers.iter().position(|(k, _)| *k == key) {
        Some(i) => i,
        None => {
            let s = unsafe { spawn_server::<T>(f) }.ok_or_else(|| "ENGINE: cannot fork server".to_string())?;
            servers.push((key, s));
            servers.len() - 1
        }
    };
    let (to_child, from_child, pid) = {
        let s = &servers[idx].1;
        (s.to_child, s.from_child, s.pid)
    };
    let mut last = String::new();
    let verdict = unsafe {
        if !send_msg(to_child, b'C', &payload) {
            None
        } else {
            loop {
                match recv_msg(from_child) {
                    Some((b'P', p)) => last = String::from_utf8_lossy(&p).to_string(),
                    Some((b'V', p)) => break Some(String::from_utf8_lossy(&p).to_string()),
                    Some(_) => {}
                    None => break None,
                }
            }
        }
    };
    match verdict {
        Some(v) => {
            if v == "OK" {
                Ok(())
            } else {
                Err(v.strip_prefix("ERR").unwrap_or(&v).to_string())
            }
        }
        None => {
            // the child died: reap it, forget the server (a new one is forked for the next case)
            let (_, s) = servers.remove(idx);
            let mut status = 0i32;
            unsafe {
                libc::close(s.to_child);
                libc::close(s.from_child);
                loop {
                    let w = libc::waitpid(pid, &mut status, 0);
                    if w == pid || (w < 0 && *libc::__errno_location() != libc::EINTR) {
                        break;
                    }
                }
            }
            if libc::WIFSIGNALED(status) {
                let sig = libc::WTERMSIG(status);
                if sig == libc::SIGALRM {
                    return Err("ENGINE: child exceeded its 90 s watchdog".into());
                }
                let name = match sig {
                    libc::SIGSEGV => "SIGSEGV",
                    libc::SIGBUS => "SIGBUS",
                    libc::SIGILL => "SIGILL",
                    libc::SIGFPE => "SIGFPE",
                    libc::SIGABRT => "SIGABRT",
                    _ => "signal",
                };
                Err(format!("code under test crashed the process with {} (signal {}) while running: {}", name, sig, last))
            } else {
                Err(format!("ENGINE: server child exited with status {} without a verdict", status))
            }
        }
    }
}

/// An address that may cross threads (the pointee's use is synchronised by the caller).
#[derive(Clone, Copy)]
pub struct SendAddr(pub usize);
unsafe impl Send for SendAddr {}
unsafe impl Sync for SendAddr {}
