//! C04 — results do not depend on SIMD level, build flavour or feature set.
//!
//! The generators and checks of C01/C02/C03/C09 are re-run with the whole crate
//! forced to each SIMD level (hook 1), in each build flavour. The oracle is the
//! spec model, so all configurations agree iff each agrees with the spec.

use crate::gen::{self, ModeC};
use crate::hist;
use crate::levels::{self, Level};
use crate::props::{c01, c02, c03, c09};
use crate::runner::{Classes, DynSub, PropSub, Tier};
use proptest::prelude::*;
use serde::{Deserialize, Serialize};

#[derive(Clone, Debug, Serialize, Deserialize)]
pub enum Inner {
    OneShot(c01::OneShot),
    Hist(c02::History),
    Xof(c03::Case),
    Tree(c09::TreeCase),
    Far(c09::FarCase),
}

#[derive(Clone, Debug, Serialize, Deserialize)]
pub struct Case {
    /// level to force; None = leave detection alone (stock builds, hooks off)
    pub level: Option<Level>,
    pub inner: Inner,
}

pub fn check(c: &Case) -> Result<(), String> {
    let run = || match &c.inner {
        Inner::OneShot(x) => c01::check(x),
        Inner::Hist(x) => c02::check(x),
        Inner::Xof(x) => c03::check(x),
        Inner::Tree(x) => c09::check_tree(x),
        Inner::Far(x) => c09::check_far(x),
    };
    match c.level {
        Some(l) => {
            if !levels::HOOKS {
                return Err("ENGINE: a forced level needs a hooked build".into());
            }
            levels::with_level(l, || {
                let got = levels::detected_name();
                if got != l.debug_name() {
                    return Err(format!("ENGINE: forcing {:?} left Platform::detect() = {}", l, got));
                }
                run().map_err(|e| format!("[forced {:?} in build {}] {}", l, levels::BUILD, e))
            })
        }
        None => run().map_err(|e| format!("[build {} detect={}] {}", levels::BUILD, levels::detected_name(), e)),
    }
}

fn input_len(i: &Inner) -> usize {
    match i {
        Inner::OneShot(x) => x.len,
        Inner::Hist(x) => x.budget as usize, // upper bound
        Inner::Xof(_) => 0,
        Inner::Tree(x) => x.len,
        Inner::Far(x) => x.len as usize,
    }
}

pub fn classify(c: &Case) -> Classes {
    let degree = c.level.map(|l| l.degree()).unwrap_or(1);
    let recursion = match &c.inner {
        Inner::Xof(_) => true, // xof_many / compress_xof kernels differ per level regardless of input size
        i => input_len(i) > degree * 1024,
    };
    let tag = match c.level {
        Some(l) => levels::cfg_tag(l),
        None => stock_tag(),
    };
    Classes::new(recursion)
        .tag(true, tag)
        .tag(matches!(c.inner, Inner::OneShot(_)), "kind=one-shot")
        .tag(matches!(c.inner, Inner::Hist(_)), "kind=history")
        .tag(matches!(c.inner, Inner::Xof(_)), "kind=xof-stream")
        .tag(matches!(c.inner, Inner::Tree(_)), "kind=subtree-decomposition")
        .tag(matches!(c.inner, Inner::Far(_)), "kind=far-offset-subtree")
}

fn stock_tag() -> &'static str {
    use std::sync::OnceLock;
    static T: OnceLock<&'static str> = OnceLock::new();
    T.get_or_init(|| Box::leak(format!("cfg={}:{}", levels::BUILD, levels::detected_name()).into_boxed_str()))
}

fn level_strategy() -> BoxedStrategy<Option<Level>> {
    let av = levels::available().clone();
    if av.is_empty() {
        Just(None).boxed()
    } else {
        (0usize..av.len()).prop_map(move |i| Some(av[i])).boxed()
    }
}

/// lengths around degree * 1024 * {1,2,3,4} for every degree, plus the general lattice
fn degree_len(max: usize) -> BoxedStrategy<usize> {
    prop_oneof![
        3 => (crate::gen::select(vec![1usize, 2, 4, 8, 16, 32]), 1usize..=4, crate::gen::select(vec![-1025i64, -1024, -65, -1, 0, 1, 64, 1023, 1024, 1025]))
            .prop_map(move |(d, k, delta)| core::cmp::min(max as i64, core::cmp::max(0, (d * k * 1024) as i64 + delta)) as usize),
        2 => gen::len_lattice(max),
    ]
    .boxed()
}

fn inner_strategy(tier: Tier) -> BoxedStrategy<Inner> {
    let max = tier.pick(128 * 1024, 1024 * 1024);
    let oneshot = (gen::mode3(), degree_len(max), gen::content()).prop_map(|(mode, len, content)| Inner::OneShot(c01::OneShot { mode, len, content }));
    let hist_ = c02::history_strategy(Tier::Quick, cfg!(feature = "full")).prop_map(Inner::Hist);
    let xof = c03::strategy(Tier::Quick).prop_map(Inner::Xof);
    let tree = (
        gen::mode4(),
        degree_len(max).prop_map(|l| core::cmp::max(l, 1025)),
        gen::content(),
        prop::collection::vec(prop::bool::weighted(0.5), 0..24),
        prop::collection::vec(hist::size(70_000), 0..4),
    )
        .prop_map(|(mode, len, content, splits, sizes)| Inner::Tree(c09::TreeCase { mode, len, content, splits, sizes }));
    let far = c09::far_strategy(Tier::Quick).prop_map(Inner::Far);
    prop_oneof![4 => oneshot, 2 => hist_, 3 => xof, 2 => tree, 2 => far].boxed()
}

fn strategy(tier: Tier) -> BoxedStrategy<Case> {
    (level_strategy(), inner_strategy(tier)).prop_map(|(level, inner)| Case { level, inner }).boxed()
}

pub fn subs() -> Vec<Box<dyn DynSub>> {
    let _ = ModeC::Hash;
    vec![Box::new(PropSub::<Case> {
        name: "configs",
        rule: "proptest: (forced SIMD level among those this CPU+build can run) x (one-shot with lengths at degree*1024*{1..4}+-delta | C02 history | C03 XOF stream | C09 decomposition | C09 far-offset subtree), executed in every registered build flavour (asm, prefer_intrinsics, pure, no-default-features; thorough: stock no_* feature builds with hooks off); oracle = spec model; non-trivial = input > degree chunks for the forced level (or any XOF stream case)",
        cases: (24_000, 160_000),
        strategy,
        classify,
        check,
        known: None,
        crumb: true,
    })]
}
