//! C05 — every SIMD kernel equals the portable/spec compression function on all arguments.

use crate::ensure;
use crate::gen::{self, fill_random};
use crate::kernels::{all_kernels, Kernel};
use crate::runner::{eq_bytes, Classes, DynSub, PropSub, Tier};
use proptest::prelude::*;
use serde::{Deserialize, Serialize};

#[derive(Clone, Debug, Serialize, Deserialize)]
pub enum KCase {
    Compress { cv: [u32; 8], block_kind: u8, block_seed: u64, block_len: u8, counter: u64, flags: u8, align: u8 },
    HashMany { n: u8, parents: bool, key: [u32; 8], counter: u64, inc: bool, flags: u8, fs: u8, fe: u8, seed: u64, align_seed: u64, out_align: u8 },
    XofMany { cv: [u32; 8], block_seed: u64, block_len: u8, counter: u64, flags: u8, n: u8, out_align: u8 },
}

pub fn block_bytes(kind: u8, seed: u64) -> [u8; 64] {
    let mut b = [0u8; 64];
    match kind % 4 {
        0 => fill_random(&mut b, seed),
        1 => {}
        2 => b = [0xff; 64],
        _ => {
            for (i, x) in b.iter_mut().enumerate() {
                *x = (i as u8).wrapping_add(seed as u8);
            }
        }
    }
    b
}

const CANARY: u8 = 0xC3;

pub fn check_with(c: &KCase, kernels: &[Box<dyn Kernel>]) -> Result<(), String> {
    match c {
        KCase::Compress { cv, block_kind, block_seed, block_len, counter, flags, align } => {
            let block = block_bytes(*block_kind, *block_seed);
            let want16 = b3spec::compress(cv, &b3spec::words_from_bytes_64(&block), *counter, *block_len as u32, *flags as u32);
            let mut want_cv = [0u32; 8];
            want_cv.copy_from_slice(&want16[..8]);
            let want_xof = b3spec::bytes_from_words_16(&want16);
            // place the block at an arbitrary alignment
            let mut store = vec![0u8; 64 + 64];
            let a = (*align % 64) as usize;
            store[a..a + 64].copy_from_slice(&block);
            let blk: &[u8; 64] = (&store[a..a + 64]).try_into().unwrap();
            for k in kernels {
                let mut got = *cv;
                if k.compress_in_place(&mut got, blk, *block_len, *counter, *flags) {
                    ensure!(got == want_cv, "{}: compress_in_place = {:08x?} expected {:08x?}", k.name(), got, want_cv);
                }
                let cv_copy = *cv;
                if let Some(x) = k.compress_xof(&cv_copy, blk, *block_len, *counter, *flags) {
                    eq_bytes(&format!("{}: compress_xof", k.name()), &x, &want_xof)?;
                }
                ensure!(cv_copy == *cv, "{}: compress_xof modified its input cv", k.name());
            }
            ensure!(store[a..a + 64] == block, "a kernel modified its input block");
            Ok(())
        }
        KCase::HashMany { n, parents, key, counter, inc, flags, fs, fe, seed, align_seed, out_align } => {
            let n = *n as usize;
            let blocks = if *parents { 1 } else { 16 };
            let ilen = blocks * 64;
            let counter = if *inc { core::cmp::min(*counter, u64::MAX - n as u64) } else { *counter };
            // inputs, each at its own byte alignment
            let stride = ilen + 64;
            let mut store = vec![0u8; n * stride + 64];
            fill_random(&mut store, *seed);
            let mut st = *align_seed;
            let mut ptrs: Vec<*const u8> = Vec::with_capacity(n);
            let mut offs = Vec::with_capacity(n);
            for j in 0..n {
                let a = (gen::splitmix(&mut st) % 64) as usize;
                offs.push(j * stride + a);
            }
            let snapshot = store.clone();
            for &o in &offs {
                ptrs.push(store[o..].as_ptr());
            }
            // oracle
            let mut want = vec![0u8; n * 32];
            for j in 0..n {
                let mut cv = *key;
                let cj = if *inc { counter + j as u64 } else { counter };
                for b in 0..blocks {
                    let mut f = *flags;
                    if b == 0 {
                        f |= *fs;
                    }
                    if b == blocks - 1 {
                        f |= *fe;
                    }
                    let blk: [u8; 64] = store[offs[j] + b * 64..offs[j] + b * 64 + 64].try_into().unwrap();
                    cv = b3spec::compress_cv_bytes(&cv, &blk, 64, cj, f);
                }
                want[j * 32..j * 32 + 32].copy_from_slice(&b3spec::bytes_from_words_8(&cv));
            }
            for k in kernels {
                let oa = (*out_align % 64) as usize;
                let mut out = vec![CANARY; oa + n * 32 + 64];
                k.hash_many(&ptrs, blocks, key, counter, *inc, *flags, *fs, *fe, &mut out[oa..oa + n * 32 + 64], n * 32);
                eq_bytes(&format!("{}: hash_many({} inputs x {} blocks) output", k.name(), n, blocks), &out[oa..oa + n * 32], &want)?;
                ensure!(out[..oa].iter().all(|&b| b == CANARY), "{}: hash_many wrote before its output buffer", k.name());
                ensure!(out[oa + n * 32..].iter().all(|&b| b == CANARY), "{}: hash_many wrote more than 32 bytes per input", k.name());
            }
            ensure!(store == snapshot, "a kernel modified its inputs");
            Ok(())
        }
        KCase::XofMany { cv, block_seed, block_len, counter, flags, n, out_align } => {
            let n = core::cmp::max(1, *n as usize);
            let counter = core::cmp::min(*counter, u64::MAX - n as u64);
            let block = block_bytes(0, *block_seed);
            let mut want = vec![0u8; n * 64];
            for i in 0..n {
                let w = b3spec::compress(cv, &b3spec::words_from_bytes_64(&block), counter + i as u64, *block_len as u32, *flags as u32);
                want[i * 64..i * 64 + 64].copy_from_slice(&b3spec::bytes_from_words_16(&w));
            }
            for k in kernels {
                let oa = (*out_align % 64) as usize;
                let mut out = vec![CANARY; oa + n * 64 + 64];
                if !k.xof_many(cv, &block, *block_len, counter, *flags, &mut out[oa..oa + n * 64 + 64], n) {
                    continue;
                }
                eq_bytes(&format!("{}: xof_many({} blocks from counter {})", k.name(), n, counter), &out[oa..oa + n * 64], &want)?;
                ensure!(out[..oa].iter().all(|&b| b == CANARY), "{}: xof_many wrote before its output buffer", k.name());
                ensure!(out[oa + n * 64..].iter().all(|&b| b == CANARY), "{}: xof_many wrote more than 64 bytes per block", k.name());
            }
            Ok(())
        }
    }
}

pub fn check(c: &KCase) -> Result<(), String> {
    check_with(c, all_kernels())
}

fn near_2_32(counter: u64, span: u64) -> bool {
    let lo = counter as u32 as u64;
    lo >= (1u64 << 32) - 64 || (counter > 0 && lo < span.max(1))
}

pub fn classify(c: &KCase) -> Classes {
    match c {
        KCase::Compress { block_len, counter, flags, .. } => Classes::new(near_2_32(*counter, 64) || (*block_len != 0 && *block_len != 64))
            .tag(true, "kernel=compress")
            .tag(*block_len == 0, "block_len=0")
            .tag(*block_len == 64, "block_len=64")
            .tag(*counter >= (1 << 32), "counter>=2^32")
            .tag(*flags >= 128, "flags>=128"),
        KCase::HashMany { n, parents, counter, inc, .. } => {
            let crosses = *inc && (*counter as u32 as u64) + (*n as u64) > (1u64 << 32) && (*counter as u32) != 0;
            Classes::new(*n >= 2 || near_2_32(*counter, 64))
                .tag(true, "kernel=hash_many")
                .tag(*n == 0, "n=0")
                .tag(*n >= 16, "n>=16")
                .tag(*parents, "blocks=1(parents)")
                .tag(!*parents, "blocks=16(chunks)")
                .tag(crosses, "low-counter-word-carry-inside-batch")
                .tag(!*inc, "no-increment")
        }
        KCase::XofMany { n, counter, .. } => {
            let crosses = (*counter as u32 as u64) + (*n as u64) > (1u64 << 32) && (*counter as u32) != 0;
            Classes::new(*n >= 2 || near_2_32(*counter, 64)).tag(true, "kernel=xof_many").tag(crosses, "low-counter-word-carry-inside-batch").tag(*n >= 16, "n>=16")
        }
    }
}

fn cv_strategy() -> BoxedStrategy<[u32; 8]> {
    prop_oneof![5 => any::<[u32; 8]>(), 1 => Just([0u32; 8]), 1 => Just([u32::MAX; 8]), 1 => Just(b3spec::IV)].boxed()
}

/// counters such that a batch of up to 40 consecutive values crosses a 2^32 multiple in every lane position
fn batch_counter() -> BoxedStrategy<u64> {
    prop_oneof![
        4 => (0u64..=45, 0u64..=3).prop_map(|(d, hi)| ((hi + 1) << 32) - d),
        1 => (0u64..=45).prop_map(|d| u64::MAX - d),
        3 => gen::counter_lattice(),
    ]
    .boxed()
}

pub fn strategy(_tier: Tier) -> BoxedStrategy<KCase> {
    let compress = (cv_strategy(), 0u8..4, any::<u64>(), prop_oneof![3 => 0u8..=64, 1 => Just(64u8), 1 => Just(0u8)], gen::counter_lattice(), any::<u8>(), 0u8..64)
        .prop_map(|(cv, block_kind, block_seed, block_len, counter, flags, align)| KCase::Compress { cv, block_kind, block_seed, block_len, counter, flags, align });
    let hash_many = (
        (0u8..=35, any::<bool>(), cv_strategy(), batch_counter(), prop::bool::weighted(0.7)),
        (any::<u8>(), any::<u8>(), any::<u8>(), any::<u64>(), any::<u64>(), 0u8..64),
    )
        .prop_map(|((n, parents, key, counter, inc), (flags, fs, fe, seed, align_seed, out_align))| KCase::HashMany {
            n,
            parents,
            key,
            counter,
            inc,
            flags,
            fs,
            fe,
            seed,
            align_seed,
            out_align,
        });
    let xof_many = (cv_strategy(), any::<u64>(), prop_oneof![2 => 0u8..=64, 1 => Just(64u8)], batch_counter(), any::<u8>(), 1u8..=40, 0u8..64)
        .prop_map(|(cv, block_seed, block_len, counter, flags, n, out_align)| KCase::XofMany { cv, block_seed, block_len, counter, flags, n, out_align });
    prop_oneof![3 => compress, 4 => hash_many, 2 => xof_many].boxed()
}

pub fn subs() -> Vec<Box<dyn DynSub>> {
    vec![Box::new(PropSub::<KCase> {
        name: "kernels",
        rule: "proptest: argument tuples for the four kernels (cv random/0/ff/IV, block, block_len 0..=64, counter from the lattice incl. batches whose low word carries inside the batch, flags 0..=255, n 0..=35 inputs of 1 or 16 blocks at arbitrary byte alignments, 1..=40 XOF blocks, output at arbitrary alignment with canaries), each executed on every kernel this build exposes (see coverage.kernels); oracle = spec compression function chained per input; non-trivial = n>=2, counter within 64 of a 2^32 multiple, or block_len not in {0,64}",
        cases: (40_000, 400_000),
        strategy,
        classify,
        check,
        known: None,
        crumb: true,
    })]
}
