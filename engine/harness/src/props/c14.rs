//! C14 — Hash values convert losslessly and compare by content.
#![cfg(feature = "full")]

use crate::ensure;
use crate::gen::fill_random;
use crate::runner::{Classes, DynSub, EnumSub, PropSub, Tier};
use blake3::Hash;
use proptest::prelude::*;
use serde::{Deserialize, Serialize};
use std::str::FromStr;

const LOWER: &[u8; 16] = b"0123456789abcdef";

/// Independent hex encoder.
fn hex_lower(b: &[u8]) -> String {
    let mut s = String::new();
    for x in b {
        s.push(LOWER[(x / 16) as usize] as char);
        s.push(LOWER[(x % 16) as usize] as char);
    }
    s
}

fn hex_digit(c: u8) -> Option<u8> {
    if c.is_ascii_digit() {
        Some(c - 48)
    } else if (97..=102).contains(&c) {
        Some(c - 87)
    } else if (65..=70).contains(&c) {
        Some(c - 55)
    } else {
        None
    }
}

/// Independent hex decoder: Some(bytes) iff exactly 64 hex digits.
fn hex_decode_64(s: &[u8]) -> Option<[u8; 32]> {
    if s.len() != 64 {
        return None;
    }
    let mut out = [0u8; 32];
    for i in 0..32 {
        out[i] = hex_digit(s[2 * i])? * 16 + hex_digit(s[2 * i + 1])?;
    }
    Some(out)
}

#[derive(Clone, Debug, Serialize, Deserialize)]
pub enum Case {
    /// a 32-byte value (all conversions and round trips)
    Value(Vec<u8>),
    /// arbitrary bytes offered to from_hex (and FromStr when valid UTF-8)
    HexInput(Vec<u8>),
    /// a slice of any length offered to from_slice and compared with a hash
    Slice(Vec<u8>),
    /// two 32-byte values (equal or differing), compared in every supported way
    Pair(Vec<u8>, Vec<u8>),
}

fn arr(v: &[u8]) -> Result<[u8; 32], String> {
    v.try_into().map_err(|_| "ENGINE: case needs 32 bytes".to_string())
}

pub fn check(c: &Case) -> Result<(), String> {
    match c {
        Case::Value(v) => {
            let a = arr(v)?;
            let h = Hash::from_bytes(a);
            let want = hex_lower(&a);
            let hx = h.to_hex();
            ensure!(hx.as_str() == want, "to_hex() = {} expected {}", hx, want);
            ensure!(format!("{}", h) == want, "Display = {} expected {}", h, want);
            ensure!(h.to_string().len() == 64 && h.to_string().bytes().all(|b| b.is_ascii_digit() || (b'a'..=b'f').contains(&b)), "Display is not 64 lower-case hex digits");
            let back = Hash::from_hex(hx.as_str()).map_err(|e| format!("from_hex(to_hex(h)) failed: {}", e))?;
            ensure!(back.as_bytes() == &a, "from_hex(to_hex(h)) != h");
            let back2 = Hash::from_str(&want).map_err(|e| format!("FromStr failed: {}", e))?;
            ensure!(back2.as_bytes() == &a, "FromStr(Display(h)) != h");
            let back3: Hash = want.parse().map_err(|_| "parse failed".to_string())?;
            ensure!(back3.as_bytes() == &a, "parse(Display(h)) != h");
            let up = want.to_ascii_uppercase();
            ensure!(Hash::from_hex(&up).map(|x| *x.as_bytes()) .map_err(|e| e.to_string())? == a, "upper-case hex is not accepted or decodes differently");
            // array / slice conversions
            let h2: Hash = a.into();
            let a2: [u8; 32] = h2.into();
            ensure!(a2 == a && h2.as_bytes() == &a && h2.as_slice() == &a[..], "conversion through [u8; 32] / as_bytes / as_slice changed the value");
            let h3 = Hash::from_slice(&a).map_err(|_| "from_slice rejected 32 bytes".to_string())?;
            ensure!(h3.as_bytes() == &a, "from_slice changed the value");
            ensure!(h == h2 && h == h3 && h == a && h == a[..], "equal values compare unequal");
            // serde: sequence form (JSON, CBOR) and legacy byte-string form (CBOR)
            let js = serde_json::to_string(&h).map_err(|e| e.to_string())?;
            let want_js = format!("[{}]", a.iter().map(|b| b.to_string()).collect::<Vec<_>>().join(","));
            ensure!(js == want_js, "JSON form {} expected {}", js, want_js);
            let hj: Hash = serde_json::from_str(&js).map_err(|e| format!("JSON round trip: {}", e))?;
            ensure!(hj.as_bytes() == &a, "JSON round trip changed the value");
            let mut cbor = Vec::new();
            ciborium::into_writer(&h, &mut cbor).map_err(|e| e.to_string())?;
            let hc: Hash = ciborium::from_reader(&cbor[..]).map_err(|e| format!("CBOR round trip: {}", e))?;
            ensure!(hc.as_bytes() == &a, "CBOR round trip changed the value");
            let mut legacy = vec![0x58u8, 0x20];
            legacy.extend_from_slice(&a);
            let hl: Hash = ciborium::from_reader(&legacy[..]).map_err(|e| format!("legacy CBOR byte-string form rejected: {}", e))?;
            ensure!(hl.as_bytes() == &a, "legacy byte-string form decodes to a different value");
            // a NON-self-describing binary format (bincode's layout rules, engine/harness/src/fixbin.rs): the shape that
            // Serialize announces (tuple / sequence / bytes) must be the shape Deserialize asks for, alone and between
            // other fields
            let fb = crate::fixbin::to_vec(&h).map_err(|e| format!("binary (non-self-describing) serialization failed: {}", e))?;
            let (hb, used): (Hash, usize) = crate::fixbin::from_slice(&fb).map_err(|e| format!("binary (non-self-describing) round trip failed: {} (serialized form: {} bytes)", e, fb.len()))?;
            ensure!(hb.as_bytes() == &a, "round trip through a non-self-describing binary serde format changed the value: {} -> {} ({} bytes on the wire)", want, hb.to_hex(), fb.len());
            ensure!(used == fb.len(), "non-self-describing binary form: Serialize wrote {} bytes, Deserialize consumed {}", fb.len(), used);
            let rec = (0xA1B2C3D4u32, h, 0x55AAu16, h2, 7u8);
            let fb2 = crate::fixbin::to_vec(&rec).map_err(|e| e.to_string())?;
            let (back, used2): ((u32, Hash, u16, Hash, u8), usize) = crate::fixbin::from_slice(&fb2).map_err(|e| format!("binary round trip of a record with two hashes failed: {}", e))?;
            ensure!(back.0 == rec.0 && back.1.as_bytes() == &a && back.2 == rec.2 && back.3.as_bytes() == &a && back.4 == rec.4 && used2 == fb2.len(), "a record containing hashes does not survive the non-self-describing binary format");
            Ok(())
        }
        Case::HexInput(s) => {
            let want = hex_decode_64(s);
            let got = Hash::from_hex(s);
            match (&want, &got) {
                (Some(w), Ok(g)) => ensure!(g.as_bytes() == w, "from_hex decoded {:?} to {} expected {}", String::from_utf8_lossy(s), g, hex_lower(w)),
                (None, Err(e)) => {
                    let _ = format!("{} {:?}", e, e); // Display/Debug of the error must not panic
                }
                (Some(_), Err(e)) => return Err(format!("from_hex rejected a valid 64-digit string {:?}: {}", String::from_utf8_lossy(s), e)),
                (None, Ok(g)) => return Err(format!("from_hex accepted {:?} (len {}) as {}", String::from_utf8_lossy(s), s.len(), g)),
            }
            if let Ok(st) = std::str::from_utf8(s) {
                let p = Hash::from_str(st);
                ensure!(p.is_ok() == want.is_some(), "FromStr and from_hex disagree on {:?}", st);
                if let (Ok(p), Some(w)) = (p, want) {
                    ensure!(p.as_bytes() == &w, "FromStr decodes differently from from_hex");
                }
            }
            Ok(())
        }
        Case::Slice(v) => {
            let r = Hash::from_slice(v);
            ensure!(r.is_ok() == (v.len() == 32), "from_slice of {} bytes: {:?}", v.len(), r.is_ok());
            if let Ok(h) = r {
                ensure!(h.as_slice() == &v[..], "from_slice changed the bytes");
            }
            // a hash whose first min(len,32) bytes coincide with the slice equals it only if len == 32
            let mut a = [0x11u8; 32];
            let n = core::cmp::min(32, v.len());
            a[..n].copy_from_slice(&v[..n]);
            let h = Hash::from_bytes(a);
            ensure!((h == v[..]) == (v.len() == 32), "Hash == slice of {} bytes evaluated to {}", v.len(), h == v[..]);
            Ok(())
        }
        Case::Pair(x, y) => {
            let (a, b) = (arr(x)?, arr(y)?);
            let (ha, hb) = (Hash::from_bytes(a), Hash::from_bytes(b));
            let same = a == b;
            ensure!((ha == hb) == same, "Hash == Hash is {} for bytes that are {}", ha == hb, if same { "identical" } else { "different" });
            ensure!((hb == ha) == same, "equality is not symmetric");
            ensure!((ha != hb) == !same, "!= disagrees with ==");
            ensure!((ha == b) == same, "Hash == [u8; 32] is {} for {} bytes", ha == b, if same { "identical" } else { "different" });
            ensure!((ha == b[..]) == same, "Hash == [u8] is {} for {} bytes", ha == b[..], if same { "identical" } else { "different" });
            ensure!(ha == ha && ha == a && ha == a[..], "a hash is not equal to itself");
            use std::collections::hash_map::DefaultHasher;
            use std::hash::{Hash as _, Hasher};
            if same {
                let (mut s1, mut s2) = (DefaultHasher::new(), DefaultHasher::new());
                ha.hash(&mut s1);
                hb.hash(&mut s2);
                ensure!(s1.finish() == s2.finish(), "equal hashes have different std::hash values");
            }
            Ok(())
        }
    }
}

pub fn classify(c: &Case) -> Classes {
    match c {
        Case::Value(_) => Classes::new(true).tag(true, "kind=value-round-trips"),
        Case::HexInput(s) => {
            let valid = hex_decode_64(s).is_some();
            Classes::new(true)
                .tag(true, "kind=hex-input")
                .tag(valid, "hex-valid")
                .tag(!valid && s.len() == 64, "hex-64-chars-invalid-digit")
                .tag(s.len() != 64, "hex-wrong-length")
                .tag(std::str::from_utf8(s).is_err(), "hex-not-utf8")
                .tag(valid && s.iter().any(|b| b.is_ascii_uppercase()), "hex-upper-case")
        }
        Case::Slice(v) => Classes::new(true).tag(true, "kind=slice").tag(v.len() == 32, "slice-len-32"),
        Case::Pair(a, b) => Classes::new(a != b).tag(true, "kind=pair").tag(a == b, "pair-equal").tag(a != b, "pair-different"),
    }
}

fn base(seed: u64) -> [u8; 32] {
    let mut a = [0u8; 32];
    fill_random(&mut a, seed);
    a
}

fn sweep_items(_tier: Tier) -> Box<dyn Iterator<Item = Case>> {
    let mut v: Vec<Case> = Vec::new();
    // every byte value at every position of a hash
    for pos in 0..32 {
        for val in 0..=255u8 {
            let mut a = base(pos as u64);
            a[pos] = val;
            v.push(Case::Value(a.to_vec()));
        }
    }
    v.push(Case::Value(vec![0; 32]));
    v.push(Case::Value(vec![0xff; 32]));
    // every byte value at every position of an otherwise valid hex string (lower and upper case bases)
    for pos in 0..64 {
        for val in 0..=255u8 {
            let mut s = hex_lower(&base(1000 + pos as u64)).into_bytes();
            if pos % 2 == 1 {
                s.make_ascii_uppercase();
            }
            s[pos] = val;
            v.push(Case::HexInput(s));
        }
    }
    // all lengths 0..=130 of hex digits, and of non-hex bytes
    for len in 0..=130usize {
        let full = hex_lower(&[base(len as u64), base(7), base(8), base(9), base(10)].concat()).into_bytes();
        v.push(Case::HexInput(full[..len].to_vec()));
        v.push(Case::HexInput(vec![b'g'; len]));
        v.push(Case::Slice(full[..core::cmp::min(len, 100)].to_vec()));
    }
    // a valid 64-digit string with something attached in front or behind (line terminators, blanks, NUL, a sign, a
    // radix prefix, one more digit): "exactly the 64-character strings"
    for (k, extra) in ["\n", "\r\n", "\r", " ", "\t", "\0", "0", "a", "F", "+", "-", "0x", "h", "\u{a0}", "\u{feff}", "\n\n", "  "].iter().enumerate() {
        let good = hex_lower(&base(20_000 + k as u64));
        let upper = good.to_ascii_uppercase();
        for g in [&good, &upper] {
            v.push(Case::HexInput(format!("{}{}", g, extra).into_bytes()));
            v.push(Case::HexInput(format!("{}{}", extra, g).into_bytes()));
            v.push(Case::HexInput(format!("{}{}{}", extra, g, extra).into_bytes()));
            v.push(Case::HexInput(format!("{}{}{}", &g[..32], extra, &g[32..]).into_bytes()));
        }
    }
    // all pairs differing in exactly one of the 256 bits, and the equal pair
    for bit in 0..256usize {
        let a = base(5000 + bit as u64);
        let mut b = a;
        b[bit / 8] ^= 1 << (bit % 8);
        v.push(Case::Pair(a.to_vec(), b.to_vec()));
        v.push(Case::Pair(a.to_vec(), a.to_vec()));
    }
    // all 32640 pairs differing in exactly two of the 256 bits (differences that could cancel in a folded comparison)
    for b1 in 0..256usize {
        for b2 in b1 + 1..256usize {
            let a = base(9000 + (b1 * 256 + b2) as u64 % 64);
            let mut b = a;
            b[b1 / 8] ^= 1 << (b1 % 8);
            b[b2 / 8] ^= 1 << (b2 % 8);
            v.push(Case::Pair(a.to_vec(), b.to_vec()));
        }
    }
    // the same XOR difference applied to every non-empty set of lanes, for lane widths 16, 8, 4 and 2 bytes
    for (w, deltas) in [(16usize, 4u64), (8, 8), (4, 4), (2, 1)] {
        let lanes = 32 / w;
        for mask in 1u32..(1u32 << lanes) {
            for d in 0..deltas {
                let a = base(12000 + mask as u64 % 16);
                let mut delta = vec![0u8; w];
                fill_random(&mut delta, 13000 + d + 31 * w as u64);
                if d == 0 {
                    delta = vec![0; w];
                    delta[w - 1] = 1;
                }
                let mut b = a;
                for l in 0..lanes {
                    if mask >> l & 1 == 1 {
                        for k in 0..w {
                            b[l * w + k] ^= delta[k];
                        }
                    }
                }
                v.push(Case::Pair(a.to_vec(), b.to_vec()));
            }
        }
    }
    Box::new(v.into_iter())
}

/// pairs whose XOR difference is structured: the same (or independent) delta in a random set of lanes
fn lane_pair(a: [u8; 32], wsel: u8, mask: u32, d1: [u8; 16], d2: [u8; 16], indep: bool) -> Case {
    let w = [1usize, 2, 4, 8, 16][wsel as usize % 5];
    let lanes = 32 / w;
    let mut b = a;
    let mut first = true;
    for l in 0..lanes {
        if mask >> l & 1 == 1 {
            let d = if indep && !first { &d2 } else { &d1 };
            first = false;
            for k in 0..w {
                b[l * w + k] ^= d[k];
            }
        }
    }
    Case::Pair(a.to_vec(), b.to_vec())
}

fn random_strategy(_tier: Tier) -> BoxedStrategy<Case> {
    let hexchar = prop_oneof![8 => crate::gen::select(b"0123456789abcdefABCDEF".to_vec()), 1 => any::<u8>()];
    prop_oneof![
        3 => any::<[u8; 32]>().prop_map(|a| Case::Value(a.to_vec())),
        3 => prop::collection::vec(hexchar.clone(), 64..=64).prop_map(Case::HexInput),
        2 => prop::collection::vec(crate::gen::select(b"0123456789abcdefABCDEF".to_vec()), 0..=130).prop_map(Case::HexInput),
        1 => prop::collection::vec(any::<u8>(), 0..=130).prop_map(Case::HexInput),
        1 => "\\PC{0,70}".prop_map(|s| Case::HexInput(s.into_bytes())),
        2 => ("[0-9a-fA-F]{64}", "[ \t\r\n\u{0}+x0-9a-f-]{1,3}", 0u8..3).prop_map(|(h, x, w)| Case::HexInput(match w { 0 => format!("{}{}", h, x), 1 => format!("{}{}", x, h), _ => format!("{}{}{}", &h[..32], x, &h[32..]) }.into_bytes())),
        2 => prop::collection::vec(any::<u8>(), 0..=100).prop_map(Case::Slice),
        3 => (any::<[u8; 32]>(), 0usize..32, any::<u8>(), any::<bool>()).prop_map(|(a, i, x, same)| {
            let mut b = a;
            if !same {
                b[i] ^= x | 1;
            }
            Case::Pair(a.to_vec(), b.to_vec())
        }),
        3 => (any::<[u8; 32]>(), 0u8..5, any::<u32>(), any::<[u8; 16]>(), any::<[u8; 16]>(), any::<bool>()).prop_map(|(a, w, m, d1, d2, i)| lane_pair(a, w, m, d1, d2, i)),
        1 => (any::<[u8; 32]>(), any::<[u8; 32]>()).prop_map(|(a, b)| Case::Pair(a.to_vec(), b.to_vec())),
    ]
    .boxed()
}

pub fn subs() -> Vec<Box<dyn DynSub>> {
    vec![
        Box::new(EnumSub::<Case> {
            name: "sweeps",
            rule: "enumeration: every byte value at every position of a hash (8192 values: to_hex/Display/from_hex/FromStr/[u8;32]/as_bytes/as_slice/from_slice/serde JSON+CBOR sequence form/legacy CBOR byte string/round trip through a non-self-describing bincode-layout format, alone and inside a record); every byte value at every position of an otherwise valid lower- or upper-case hex string (16384 inputs); hex and non-hex strings of every length 0..=130; valid 64-digit strings with a line terminator / blank / NUL / sign / radix prefix / extra digit attached in front, behind or in the middle; from_slice for every length 0..=100; all 256 single-bit-different pairs and equal pairs; all 32640 two-bit-different pairs; the same XOR difference in every non-empty set of 16/8/4/2-byte lanes (differences that cancel in a folded comparison); oracle = independent hex codec and byte equality",
            items: sweep_items,
            classify,
            check,
            exhaustive: true,
            known: None,
            crumb: false,
        }),
        Box::new(PropSub::<Case> {
            name: "random",
            rule: "proptest: random hashes, 64-char strings over hex digits in random case with occasional arbitrary bytes, hex strings of random length 0..=130, arbitrary byte strings and Unicode strings as hex input, slices of length 0..=100, equal/different pairs (single byte, structured lane differences with equal or independent deltas, independent values); non-trivial = all except equal pairs",
            cases: (60_000, 1_000_000),
            strategy: random_strategy,
            classify,
            check,
            known: None,
            crumb: false,
        }),
    ]
}
