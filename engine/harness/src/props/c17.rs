//! C17 — secret state is neither printed by Debug nor left behind by zeroize.
#![cfg(feature = "full")]
#![allow(deprecated)]

use crate::ensure;
use crate::gen::{self, Content, CtxSpec, ModeC};
use crate::hist::{self, Size};
use crate::runner::{Classes, DynSub, PropSub, Tier};
use proptest::prelude::*;
use serde::{Deserialize, Serialize};
use zeroize::Zeroize;

/// The shape of a history (everything Debug may depend on) plus two independent
/// assignments of the secret parts.
#[derive(Clone, Debug, Serialize, Deserialize)]
pub struct Case {
    /// 0 = hash, 1 = keyed, 2 = derive_key
    pub mode_kind: u8,
    pub ctx_len: u16,
    pub budget: u32,
    pub sizes: Vec<Size>,
    pub xof_pos: u64,
    pub xof_read: u16,
    pub secrets: [Secret; 2],
    pub chunk_counter: u64,
}

#[derive(Clone, Debug, Serialize, Deserialize)]
pub struct Secret {
    pub key: [u8; 32],
    pub ctx_seed: u64,
    pub content: Content,
}

fn mode_of(c: &Case, s: &Secret) -> ModeC {
    match c.mode_kind % 3 {
        0 => ModeC::Hash,
        1 => ModeC::Keyed(s.key),
        _ => ModeC::Derive(CtxSpec { kind: 0, len: c.ctx_len, seed: s.ctx_seed }),
    }
}

fn dbg2<T: std::fmt::Debug>(x: &T) -> (String, String) {
    (format!("{:?}", x), format!("{:#?}", x))
}

pub fn check_debug(c: &Case) -> Result<(), String> {
    let mut hs: Vec<blake3::Hasher> = Vec::new();
    let mut datas: Vec<Vec<u8>> = Vec::new();
    for s in &c.secrets {
        hs.push(mode_of(c, s).hasher());
        datas.push(s.content.expand(c.budget as usize));
    }
    let cmp = |what: &str, a: (String, String), b: (String, String)| -> Result<(), String> {
        ensure!(a == b, "Debug output of {} depends on secret data:\n  with secrets #1: {}\n  with secrets #2: {}", what, a.0, b.0);
        Ok(())
    };
    cmp("a fresh Hasher", dbg2(&hs[0]), dbg2(&hs[1]))?;
    let mut total = 0usize;
    let mut cursor = 0usize;
    for (i, sz) in c.sizes.iter().enumerate() {
        let n = sz.resolve(total as u64, c.budget as usize - cursor);
        for k in 0..2 {
            hs[k].update(&datas[k][cursor..cursor + n]);
        }
        cursor += n;
        total += n;
        cmp(&format!("Hasher after update #{} ({} bytes total)", i, total), dbg2(&hs[0]), dbg2(&hs[1]))?;
    }
    // OutputReader at a generated position, before and after a read
    let mut rs: Vec<blake3::OutputReader> = hs.iter().map(|h| h.finalize_xof()).collect();
    cmp("a new OutputReader", dbg2(&rs[0]), dbg2(&rs[1]))?;
    for r in rs.iter_mut() {
        r.set_position(c.xof_pos);
    }
    cmp("OutputReader after set_position", dbg2(&rs[0]), dbg2(&rs[1]))?;
    let n = core::cmp::min(c.xof_read as u64, u64::MAX - c.xof_pos) as usize;
    for r in rs.iter_mut() {
        let mut buf = vec![0u8; n];
        r.fill(&mut buf);
    }
    cmp("OutputReader after fill", dbg2(&rs[0]), dbg2(&rs[1]))?;
    ensure!(dbg2(&rs[0]).0.contains(&format!("{}", c.xof_pos + n as u64)), "OutputReader Debug does not show its position (sanity)");
    // guts::ChunkState over the first <= 1024 bytes of each secret input
    let take = core::cmp::min(1024, total);
    let mut cs: Vec<blake3::guts::ChunkState> = Vec::new();
    for k in 0..2 {
        let mut s = blake3::guts::ChunkState::new(c.chunk_counter);
        s.update(&datas[k][..take / 2]);
        cs.push(s);
    }
    cmp("guts::ChunkState (half fed)", dbg2(&cs[0]), dbg2(&cs[1]))?;
    for k in 0..2 {
        cs[k].update(&datas[k][take / 2..take]);
    }
    cmp("guts::ChunkState", dbg2(&cs[0]), dbg2(&cs[1]))?;
    Ok(())
}

// ---------------------------------------------------------------------------
// zeroize
// ---------------------------------------------------------------------------

/// Raw bytes of an object held in zero-initialised storage.
struct Raw<T> {
    b: Box<std::mem::MaybeUninit<T>>,
}

impl<T> Raw<T> {
    fn new(v: T) -> Self {
        let mut b: Box<std::mem::MaybeUninit<T>> = Box::new(std::mem::MaybeUninit::zeroed());
        unsafe { b.as_mut_ptr().write(v) };
        Raw { b }
    }
    fn get(&mut self) -> &mut T {
        unsafe { &mut *self.b.as_mut_ptr() }
    }
    fn bytes(&self) -> Vec<u8> {
        let p = self.b.as_ptr() as *const u8;
        (0..std::mem::size_of::<T>()).map(|i| unsafe { std::ptr::read_volatile(p.add(i)) }).collect()
    }
}

impl<T> Drop for Raw<T> {
    fn drop(&mut self) {
        unsafe { std::ptr::drop_in_place(self.b.as_mut_ptr()) }
    }
}

fn distinct(w: &[u8]) -> usize {
    let mut seen = [false; 256];
    let mut n = 0;
    for &b in w {
        if !seen[b as usize] {
            seen[b as usize] = true;
            n += 1;
        }
    }
    n
}

/// All 8-byte windows (step 4) of the secrets that are distinctive enough to search for.
fn windows(secrets: &[(String, Vec<u8>)]) -> Vec<(usize, [u8; 8])> {
    let mut v = Vec::new();
    for (si, (_, s)) in secrets.iter().enumerate() {
        let mut i = 0;
        while i + 8 <= s.len() {
            let w: [u8; 8] = s[i..i + 8].try_into().unwrap();
            if distinct(&w) >= 6 {
                v.push((si, w));
            }
            i += 4;
        }
    }
    v
}

/// Which secrets occur (any window) in `mem`.
fn located(mem: &[u8], wins: &[(usize, [u8; 8])], nsecrets: usize) -> Vec<bool> {
    use std::collections::HashMap;
    let mut idx: HashMap<[u8; 8], Vec<usize>> = HashMap::new();
    for (si, w) in wins {
        idx.entry(*w).or_default().push(*si);
    }
    let mut found = vec![false; nsecrets];
    if mem.len() >= 8 {
        for i in 0..=mem.len() - 8 {
            let w: [u8; 8] = mem[i..i + 8].try_into().unwrap();
            if let Some(v) = idx.get(&w) {
                for &si in v {
                    found[si] = true;
                }
            }
        }
    }
    found
}

fn secrets_of(mode: &ModeC, model: &b3spec::Incr) -> Vec<(String, Vec<u8>)> {
    let mut v: Vec<(String, Vec<u8>)> = Vec::new();
    let kf = mode.kf();
    if !matches!(mode, ModeC::Hash) {
        v.push(("key words".into(), b3spec::bytes_from_words_8(&kf.key).to_vec()));
    }
    for (i, cv) in model.all_node_cvs().iter().enumerate() {
        v.push((format!("tree node CV #{}", i), cv.to_vec()));
    }
    let n = model.bytes.len();
    // the chunk in progress: running CV after its compressed blocks, and the buffered block
    let chunk_start = if n == 0 { 0 } else { (n - 1) / 1024 * 1024 };
    let in_chunk = n - chunk_start;
    if in_chunk > 0 {
        let blocks_done = (in_chunk - 1) / 64;
        if blocks_done > 0 {
            let cv = b3spec::chunk_cv_after_blocks(&kf, &model.bytes[chunk_start..], (chunk_start / 1024) as u64, blocks_done);
            v.push(("running chunk CV".into(), b3spec::bytes_from_words_8(&cv).to_vec()));
        }
        v.push(("buffered input block".into(), model.bytes[chunk_start + blocks_done * 64..].to_vec()));
    }
    v
}

pub fn check_zeroize(c: &Case) -> Result<(), String> {
    let s = &c.secrets[0];
    let mode = mode_of(c, s);
    let data = s.content.expand(c.budget as usize);
    let mut h = mode.hasher();
    let mut model = b3spec::Incr::new(mode.kf());
    let mut cursor = 0usize;
    for sz in &c.sizes {
        let n = sz.resolve(model.len(), data.len() - cursor);
        h.update(&data[cursor..cursor + n]);
        model.push(&data[cursor..cursor + n]);
        cursor += n;
    }
    let secrets = secrets_of(&mode, &model);
    let wins = windows(&secrets);
    // Hash
    let hash = h.finalize();
    let mut rh = Raw::new(hash);
    ensure!(rh.bytes() == hash.as_bytes(), "ENGINE: raw view of Hash is not its 32 bytes");
    rh.get().zeroize();
    ensure!(rh.bytes().iter().all(|&b| b == 0), "Hash::zeroize left bytes behind: {}", crate::runner::hex(&rh.bytes()));
    // OutputReader (root output: its input CV and block are key / CV / input material)
    let mut reader = h.finalize_xof();
    reader.set_position(c.xof_pos);
    let mut rr = Raw::new(reader);
    let out = model.output();
    let mut rsecrets = secrets.clone();
    rsecrets.push(("root node input CV".into(), b3spec::bytes_from_words_8(&out.cv).to_vec()));
    rsecrets.push(("root node block".into(), b3spec::bytes_from_words_16(&out.block).to_vec()));
    let rwins = windows(&rsecrets);
    let before = located(&rr.bytes(), &rwins, rsecrets.len());
    rr.get().zeroize();
    let after = located(&rr.bytes(), &rwins, rsecrets.len());
    for (i, f) in after.iter().enumerate() {
        ensure!(!*f, "OutputReader::zeroize left {} in the object's memory", rsecrets[i].0);
    }
    let located_reader = before.iter().filter(|b| **b).count();
    // Hasher
    let mut rhs = Raw::new(h);
    let before = located(&rhs.bytes(), &wins, secrets.len());
    rhs.get().zeroize();
    let mem = rhs.bytes();
    let after = located(&mem, &wins, secrets.len());
    for (i, f) in after.iter().enumerate() {
        ensure!(!*f, "Hasher::zeroize left {} in the object's memory ({} bytes absorbed)", secrets[i].0, model.len());
    }
    let located_hasher = before.iter().filter(|b| **b).count();
    // The search must be effective: whenever there are distinctive secrets, some were found before zeroizing.
    // (only secrets that are certainly resident count: a lone chunk's non-root CV, for example, is never computed)
    let resident: Vec<(String, Vec<u8>)> = secrets.iter().filter(|s| s.0 == "key words" || s.0 == "buffered input block" || s.0 == "running chunk CV").cloned().collect();
    let expect_some = !windows(&resident).is_empty();
    ensure!(
        !expect_some || located_hasher > 0,
        "ENGINE: none of the {} expected secrets ({:?}) was located inside the Hasher before zeroize (layout drift?) total={}",
        secrets.len(),
        secrets.iter().map(|s| (s.0.clone(), s.1.len())).collect::<Vec<_>>(),
        model.len()
    );
    let _ = located_reader;
    Ok(())
}

// ---------------------------------------------------------------------------
// zeroize, then free: what is in the object's memory when it goes back to the allocator
// ---------------------------------------------------------------------------
// The object lives in a Box, is wiped with zeroize() and dropped without anyone reading it in between (the normal
// use). The global allocator of the harness (engine/spyalloc, a crate of its own) records the block at the moment
// it is freed. A wipe that the optimiser may treat as a dead store in front of `free` shows up here and nowhere else.
#[inline(never)]
fn wipe_and_free_hash(h: blake3::Hash) {
    let mut b = Box::new(h);
    spyalloc::watch(b.as_bytes().as_ptr(), 32);
    b.zeroize();
}

#[inline(never)]
fn wipe_and_free_hasher(h: blake3::Hasher) {
    let mut b = Box::new(h);
    spyalloc::watch(&*b as *const blake3::Hasher as *const u8, std::mem::size_of::<blake3::Hasher>());
    b.zeroize();
}

#[inline(never)]
fn wipe_and_free_reader(r: blake3::OutputReader) {
    let mut b = Box::new(r);
    spyalloc::watch(&*b as *const blake3::OutputReader as *const u8, std::mem::size_of::<blake3::OutputReader>());
    b.zeroize();
}

pub fn check_freed(c: &Case) -> Result<(), String> {
    if !spyalloc::installed() {
        return Ok(()); // another global allocator is in place (fuzzer runtime): nothing to observe
    }
    let s = &c.secrets[0];
    let mode = mode_of(c, s);
    let data = s.content.expand(c.budget as usize);
    let mut h = mode.hasher();
    let mut model = b3spec::Incr::new(mode.kf());
    let mut cursor = 0usize;
    for sz in &c.sizes {
        let n = sz.resolve(model.len(), data.len() - cursor);
        h.update(&data[cursor..cursor + n]);
        model.push(&data[cursor..cursor + n]);
        cursor += n;
    }
    let mut secrets = secrets_of(&mode, &model);
    let out = model.output();
    let hash = h.finalize();
    secrets.push(("the hash value".into(), hash.as_bytes().to_vec()));
    secrets.push(("root node input CV".into(), b3spec::bytes_from_words_8(&out.cv).to_vec()));
    secrets.push(("root node block".into(), b3spec::bytes_from_words_16(&out.block).to_vec()));
    let wins = windows(&secrets);
    let mut reader = h.finalize_xof();
    reader.set_position(c.xof_pos);
    let look = |what: &str| -> Result<(), String> {
        let snap = spyalloc::take_snapshot().ok_or_else(|| format!("ENGINE: the watched {} was never handed back to the allocator", what))?;
        let found = located(&snap, &wins, secrets.len());
        for (i, f) in found.iter().enumerate() {
            ensure!(!*f, "{} freed right after zeroize() still holds {} ({} bytes absorbed)", what, secrets[i].0, model.len());
        }
        Ok(())
    };
    wipe_and_free_hash(std::hint::black_box(hash));
    look("Box<Hash>")?;
    wipe_and_free_reader(std::hint::black_box(reader));
    look("Box<OutputReader>")?;
    wipe_and_free_hasher(std::hint::black_box(h));
    look("Box<Hasher>")
}

fn dry_len(c: &Case) -> usize {
    let mut total = 0usize;
    let mut cursor = 0usize;
    for sz in &c.sizes {
        let n = sz.resolve(total as u64, c.budget as usize - cursor);
        cursor += n;
        total += n;
    }
    total
}

pub fn classify(c: &Case) -> Classes {
    let total = dry_len(c);
    let stack = (total.saturating_sub(1) / 1024).count_ones();
    Classes::new(stack >= 2 && total % 64 != 0)
        .tag(c.mode_kind % 3 == 0, "mode=hash")
        .tag(c.mode_kind % 3 == 1, "mode=keyed")
        .tag(c.mode_kind % 3 == 2, "mode=derive_key")
        .tag(total == 0, "empty")
        .tag(total > 0 && total <= 1024, "single-chunk")
        .tag(stack >= 2, ">=2-stack-entries")
        .tag(total % 1024 != 0 && total % 64 != 0, "partial-block-buffered")
        .tag(c.xof_pos >= (1 << 38), "xof-position>=2^38")
}

fn strategy(tier: Tier) -> BoxedStrategy<Case> {
    let budget = tier.pick(64 * 1024u32, 512 * 1024u32);
    let secret = || (gen::key32(), any::<u64>(), any::<u64>(), prop_oneof![2 => Just(3u8), 1 => Just(5u8)]).prop_map(|(key, ctx_seed, seed, kind)| Secret { key, ctx_seed, content: Content { kind, seed } });
    (
        (0u8..3, 0u16..=120, prop::collection::vec(hist::size(30_000), 0..=8), gen::position_lattice(), 0u16..=300),
        (secret(), secret(), gen::counter_lattice()),
    )
        .prop_map(move |((mode_kind, ctx_len, sizes, xof_pos, xof_read), (s1, s2, chunk_counter))| Case {
            mode_kind,
            ctx_len,
            budget,
            sizes,
            xof_pos,
            xof_read,
            secrets: [s1, s2],
            chunk_counter,
        })
        .boxed()
}

pub fn subs() -> Vec<Box<dyn DynSub>> {
    vec![
        Box::new(PropSub::<Case> {
            name: "debug-metamorphic",
            rule: "proptest: a history shape (mode kind, context length, update sizes, XOF position and read length, guts chunk counter) with two independent secret assignments (key, context bytes, input bytes of the same lengths); Debug ({:?} and {:#?}) of Hasher after every update, OutputReader (new / after set_position / after fill) and guts::ChunkState must be byte-identical for the two assignments; non-trivial = >=2 CV-stack entries and a partially filled block",
            cases: (24_000, 200_000),
            strategy,
            classify,
            check: check_debug,
            known: None,
            crumb: false,
        }),
        Box::new(PropSub::<Case> {
            name: "zeroize",
            rule: "proptest: same shapes; the spec model lists the secret byte strings the objects may hold (key words, every tree node CV, the running chunk CV, the buffered block, the root node's input CV and block); the raw bytes of Hash / OutputReader / Hasher are snapshotted from zero-initialised storage, secrets are located by 8-byte windows, and after zeroize() no window of any secret may remain anywhere in the object (Hash: 32 zero bytes); the search must locate at least one secret before zeroize (otherwise an engine error, never a violation)",
            cases: (16_000, 120_000),
            strategy,
            classify,
            check: check_zeroize,
            known: None,
            crumb: false,
        }),
        Box::new(PropSub::<Case> {
            name: "freed-after-zeroize",
            rule: "proptest: same shapes; Hash, OutputReader and Hasher are boxed, wiped with zeroize() and dropped with no read in between; the harness's global allocator (engine/spyalloc) records the block as it is handed back; no 8-byte window of any secret (incl. the hash value itself) may be in it. Sees wipes that an optimiser removes as dead stores before `free`, which reading the object back (the `zeroize` sub) cannot",
            cases: (8_000, 80_000),
            strategy,
            classify,
            check: check_freed,
            known: None,
            crumb: false,
        }),
    ]
}
