//! C09 — subtree hashing composes to the whole-input hash for every valid decomposition;
//! the two length helpers meet their closed forms.

use crate::ensure;
use crate::gen::{self, Content, ModeC};
use crate::hist::{self, Size};
use crate::props::c03::hazmat_mode;
use crate::props::c10::chunk_index;
use crate::runner::{eq_bytes, Classes, DynSub, EnumSub, PropSub, Tier};
use blake3::hazmat::{self, HasherExt};
use proptest::prelude::*;
use serde::{Deserialize, Serialize};

#[derive(Clone, Debug, Serialize, Deserialize)]
pub struct TreeCase {
    pub mode: ModeC,
    pub len: usize,
    pub content: Content,
    /// consumed in depth-first order: true = split this node at left_subtree_len, false = hash it as one subtree
    pub splits: Vec<bool>,
    /// update sizes used (cyclically) inside leaves
    pub sizes: Vec<Size>,
}

struct Walk<'a> {
    c: &'a TreeCase,
    data: &'a [u8],
    kf: b3spec::KeyFlags,
    next_split: usize,
    next_size: usize,
    leaves: usize,
    multi_update_leaves: usize,
    /// a long-lived worker hasher that is re-seeded for every leaf (clone_from a template / reset) instead of a
    /// fresh hasher per leaf: used when the case has an odd number of split decisions
    worker: Option<blake3::Hasher>,
}

impl<'a> Walk<'a> {
    fn leaf(&mut self, off: usize, len: usize) -> Result<[u8; 32], String> {
        let reuse = self.c.splits.len() % 2 == 1;
        let mut h = match (reuse, self.worker.take()) {
            (true, Some(mut w)) => {
                if self.leaves % 2 == 0 {
                    w.clone_from(&self.c.mode.hasher());
                } else {
                    w.reset();
                }
                w
            }
            _ => self.c.mode.hasher(),
        };
        if self.c.splits.len() % 3 == 1 {
            // the offset may be set more than once before any input: only the last call counts
            let elsewhere = ((off / 1024) as u64 ^ 0x55).wrapping_add(1 + self.leaves as u64) % (1 << 40) * 1024;
            h.set_input_offset(elsewhere);
        }
        h.set_input_offset(off as u64);
        let mut done = 0usize;
        let mut updates = 0;
        while done < len {
            let sz = if self.c.sizes.is_empty() { Size::Abs(u32::MAX) } else { self.c.sizes[self.next_size % self.c.sizes.len()].clone() };
            self.next_size += 1;
            let mut n = sz.resolve(done as u64, len - done);
            if updates >= 12 {
                n = len - done;
            }
            h.update(&self.data[off + done..off + done + n]);
            done += n;
            updates += 1;
            ensure!(h.count() == done as u64, "leaf at offset {}: count() = {} after {} bytes", off, h.count(), done);
        }
        self.leaves += 1;
        if len > 1024 && updates >= 2 {
            self.multi_update_leaves += 1;
        }
        let cv = h.finalize_non_root();
        let want = b3spec::subtree_cv(&self.kf, &self.data[off..off + len], (off / 1024) as u64);
        eq_bytes(&format!("subtree CV of bytes [{}, {}) at chunk {}{}", off, off + len, off / 1024, if reuse { " (re-seeded worker hasher)" } else { "" }), &cv, &want)?;
        if reuse {
            self.worker = Some(h);
        }
        Ok(cv)
    }

    fn node(&mut self, off: usize, len: usize, force_split: bool) -> Result<([u8; 32], [u8; 32], bool), String> {
        // returns (left, right, true) for a split node, (cv, _, false) for a leaf
        let split = if len <= 1024 {
            false
        } else if force_split {
            true
        } else {
            let b = self.c.splits.get(self.next_split).copied().unwrap_or(false);
            self.next_split += 1;
            b
        };
        if !split {
            let cv = self.leaf(off, len)?;
            return Ok((cv, [0; 32], false));
        }
        let l = hazmat::left_subtree_len(len as u64) as usize;
        ensure!(l > 0 && l < len && l % 1024 == 0, "left_subtree_len({}) = {} is not a usable split", len, l);
        let left = self.cv(off, l)?;
        let right = self.cv(off + l, len - l)?;
        Ok((left, right, true))
    }

    fn cv(&mut self, off: usize, len: usize) -> Result<[u8; 32], String> {
        let (a, b, split) = self.node(off, len, false)?;
        if !split {
            return Ok(a);
        }
        let mut ck = [0u8; 32];
        let m = hazmat_mode(&self.c.mode, &mut ck);
        Ok(hazmat::merge_subtrees_non_root(&a, &b, m))
    }
}

fn check_root(mode: &ModeC, data: &[u8], left: &[u8; 32], right: &[u8; 32]) -> Result<(), String> {
    let mut ck = [0u8; 32];
    let m = hazmat_mode(mode, &mut ck);
    let spec = b3spec::root(&mode.kf(), data);
    let hash = hazmat::merge_subtrees_root(left, right, m);
    eq_bytes("merge_subtrees_root vs spec hash of the whole input", hash.as_bytes(), &spec.hash())?;
    let mut x = vec![0u8; 333];
    hazmat::merge_subtrees_root_xof(left, right, m).fill(&mut x);
    eq_bytes("merge_subtrees_root_xof vs spec xof of the whole input", &x, &spec.xof(0, 333))?;
    let mut h = mode.hasher();
    h.update(data);
    ensure!(h.finalize() == hash, "composition differs from the crate's own whole-input hash");
    Ok(())
}

pub fn check_tree(c: &TreeCase) -> Result<(), String> {
    let data = c.content.expand(c.len);
    let mut w = Walk { c, data: &data, kf: c.mode.kf(), next_split: 0, next_size: 0, leaves: 0, multi_update_leaves: 0, worker: None };
    let (left, right, _) = w.node(0, c.len, true)?;
    check_root(&c.mode, &data, &left, &right)
}

pub fn classify_tree(c: &TreeCase) -> Classes {
    // count leaves by replaying the split decisions on lengths only
    fn rec(len: usize, force: bool, splits: &[bool], idx: &mut usize, leaves: &mut usize, multi: &mut usize) {
        let split = if len <= 1024 {
            false
        } else if force {
            true
        } else {
            let b = splits.get(*idx).copied().unwrap_or(false);
            *idx += 1;
            b
        };
        if !split {
            *leaves += 1;
            if len > 1024 {
                *multi += 1;
            }
            return;
        }
        let l = b3spec::left_len(len as u128) as usize;
        rec(l, false, splits, idx, leaves, multi);
        rec(len - l, false, splits, idx, leaves, multi);
    }
    let (mut idx, mut leaves, mut multi) = (0, 0, 0);
    rec(c.len, true, &c.splits, &mut idx, &mut leaves, &mut multi);
    Classes::new(leaves >= 3 && multi >= 1 && c.sizes.len() >= 1)
        .tag(true, c.mode.tag())
        .tag(leaves == 2, "leaves=2")
        .tag(leaves >= 3 && leaves < 8, "leaves=3..7")
        .tag(leaves >= 8, "leaves>=8")
        .tag(multi >= 1, "multi-chunk-leaf")
        .tag(c.len % 1024 != 0, "partial-last-chunk")
        .tag(c.len > 64 * 1024, "len>64chunks")
}

#[derive(Clone, Debug, Serialize, Deserialize)]
pub struct GroupCase {
    pub mode: ModeC,
    pub len: usize,
    pub content: Content,
    pub group_log: u8,
}

pub fn check_groups(c: &GroupCase) -> Result<(), String> {
    let data = c.content.expand(c.len);
    let g = 1024usize << (c.group_log % 8);
    ensure!(c.len > g, "ENGINE: group case needs len > group");
    let kf = c.mode.kf();
    let mut cvs: Vec<[u8; 32]> = Vec::new();
    let mut off = 0;
    while off < c.len {
        let take = core::cmp::min(g, c.len - off);
        let mut h = c.mode.hasher();
        h.set_input_offset(off as u64).update(&data[off..off + take]);
        let cv = h.finalize_non_root();
        eq_bytes(&format!("group CV at offset {}", off), &cv, &b3spec::subtree_cv(&kf, &data[off..off + take], (off / 1024) as u64))?;
        cvs.push(cv);
        off += take;
    }
    let mut ck = [0u8; 32];
    let m = hazmat_mode(&c.mode, &mut ck);
    while cvs.len() > 2 {
        let n = cvs.len();
        let mut next = Vec::with_capacity(n / 2 + 1);
        for i in 0..n / 2 {
            next.push(hazmat::merge_subtrees_non_root(&cvs[2 * i], &cvs[2 * i + 1], m));
        }
        if n % 2 == 1 {
            next.push(cvs[n - 1]);
        }
        cvs = next;
    }
    check_root(&c.mode, &data, &cvs[0], &cvs[1])
}

pub fn classify_groups(c: &GroupCase) -> Classes {
    let g = 1024usize << (c.group_log % 8);
    let groups = (c.len + g - 1) / g;
    Classes::new(groups >= 3).tag(true, c.mode.tag()).tag(groups % 2 == 1, "odd-group-count").tag(c.len % g != 0, "short-last-group")
}

#[derive(Clone, Debug, Serialize, Deserialize)]
pub struct FarCase {
    pub mode: ModeC,
    pub chunk: u64,
    pub len: u32,
    pub content: Content,
    pub sizes: Vec<Size>,
}

pub fn check_far(c: &FarCase) -> Result<(), String> {
    let max = if c.chunk == 0 { u64::MAX } else { 1024u64 << c.chunk.trailing_zeros() };
    // a subtree may extend to the very end of the counter space (byte 2^64): max_subtree_len() allows exactly that
    let room = core::cmp::min(((1u128 << 64) - c.chunk as u128 * 1024) as u128, max as u128) as u64;
    let len = core::cmp::max(1, core::cmp::min(c.len as u64, room)) as usize;
    let data = c.content.expand(len);
    let got_max = hazmat::max_subtree_len(c.chunk * 1024);
    if c.chunk == 0 {
        ensure!(got_max.is_none(), "max_subtree_len(0) = {:?}", got_max);
    } else {
        ensure!(got_max == Some(max), "max_subtree_len({}) = {:?} expected {}", c.chunk * 1024, got_max, max);
    }
    let mut h = c.mode.hasher();
    h.set_input_offset(c.chunk * 1024);
    let mut done = 0usize;
    let mut k = 0;
    while done < len {
        let sz = if c.sizes.is_empty() { Size::Abs(u32::MAX) } else { c.sizes[k % c.sizes.len()].clone() };
        let mut n = sz.resolve(done as u64, len - done);
        if k >= 10 {
            n = len - done;
        }
        h.update(&data[done..done + n]);
        done += n;
        k += 1;
        ensure!(h.count() == done as u64, "count() = {} after {} bytes at offset chunk {}", h.count(), done, c.chunk);
    }
    let cv = h.finalize_non_root();
    let want = b3spec::subtree_cv(&c.mode.kf(), &data, c.chunk);
    eq_bytes(&format!("subtree CV of {} bytes at chunk index {}", len, c.chunk), &cv, &want)
}

pub fn classify_far(c: &FarCase) -> Classes {
    Classes::new(c.chunk >= (1 << 32) || c.sizes.len() >= 2)
        .tag(true, c.mode.tag())
        .tag(c.chunk >= (1 << 32), "chunk>=2^32")
        .tag(c.chunk < (1 << 32) && c.chunk + (c.len as u64 + 1023) / 1024 >= (1 << 32), "subtree-crosses-chunk-2^32")
        .tag(c.chunk >= (1 << 53), "chunk>=2^53")
        .tag(c.len > 1024, "multi-chunk")
}

#[derive(Clone, Debug, Serialize, Deserialize)]
pub enum HelperCase {
    Left(u64),
    Max(u64),
}

pub fn check_helper(c: &HelperCase) -> Result<(), String> {
    match c {
        HelperCase::Left(n) => {
            let got = hazmat::left_subtree_len(*n);
            let want = b3spec::largest_pow2_below(*n);
            ensure!(got == want, "left_subtree_len({}) = {} but the largest power of two below it is {}", n, got, want);
        }
        HelperCase::Max(chunk) => {
            let got = hazmat::max_subtree_len(chunk * 1024);
            if *chunk == 0 {
                ensure!(got.is_none(), "max_subtree_len(0) = {:?}", got);
            } else {
                let want = 1024u64 << chunk.trailing_zeros();
                ensure!(got == Some(want), "max_subtree_len({}) = {:?} expected {}", chunk * 1024, got, want);
            }
        }
    }
    Ok(())
}

fn helper_items(_tier: Tier) -> Box<dyn Iterator<Item = HelperCase>> {
    let mut v = Vec::new();
    for k in 10..=63u32 {
        for d in -3i64..=3 {
            let n = (1u64 << k) as i128 + d as i128;
            if n > 1024 && n <= u64::MAX as i128 {
                v.push(HelperCase::Left(n as u64));
            }
            let n3 = 3 * (1u128 << (k - 1)) as i128 + d as i128;
            if n3 > 1024 && n3 <= u64::MAX as i128 {
                v.push(HelperCase::Left(n3 as u64));
            }
        }
    }
    for d in 0..=8u64 {
        v.push(HelperCase::Left(u64::MAX - d));
    }
    for n in 1025..=6000u64 {
        v.push(HelperCase::Left(n));
    }
    v.push(HelperCase::Max(0));
    for k in 0..=53u32 {
        for odd in [1u64, 3, 5, 7, 1023, 0xFFFF_FFFF] {
            let c = (odd as u128) << k;
            if c < (1u128 << 54) {
                v.push(HelperCase::Max(c as u64));
            }
        }
    }
    for c in 1..=300u64 {
        v.push(HelperCase::Max(c));
    }
    Box::new(v.into_iter())
}

fn helper_random(_tier: Tier) -> BoxedStrategy<HelperCase> {
    prop_oneof![
        (1025u64..=u64::MAX).prop_map(HelperCase::Left),
        (10u32..=63, any::<u64>()).prop_map(|(k, r)| HelperCase::Left(((1u64 << k) + (r % (1u64 << k))).max(1025))),
        chunk_index().prop_map(HelperCase::Max),
    ]
    .boxed()
}

fn tree_strategy(tier: Tier) -> BoxedStrategy<TreeCase> {
    let max = tier.pick(256 * 1024, 4096 * 1024);
    (
        gen::mode4(),
        gen::len_lattice(max).prop_map(|l| core::cmp::max(l, 1025)),
        gen::content(),
        prop::collection::vec(prop::bool::weighted(0.6), 0..40),
        prop::collection::vec(hist::size(70_000), 0..6),
    )
        .prop_map(|(mode, len, content, splits, sizes)| TreeCase { mode, len, content, splits, sizes })
        .boxed()
}

fn group_strategy(tier: Tier) -> BoxedStrategy<GroupCase> {
    let max = tier.pick(128 * 1024, 1024 * 1024);
    (gen::mode4(), gen::len_lattice(max), gen::content(), 0u8..=6)
        .prop_map(|(mode, len, content, group_log)| {
            let g = 1024usize << group_log;
            GroupCase { mode, len: core::cmp::max(len, g + 1), content, group_log }
        })
        .boxed()
}

pub fn far_strategy(_tier: Tier) -> BoxedStrategy<FarCase> {
    (
        gen::mode4(),
        chunk_index(),
        prop_oneof![1u32..=1024, 1u32..=65_536, crate::gen::select(vec![1024u32, 1025, 2048, 4096, 16 * 1024, 32 * 1024, 65_536])],
        gen::content(),
        prop::collection::vec(hist::size(20_000), 0..4),
    )
        .prop_map(|(mode, chunk, len, content, sizes)| FarCase { mode, chunk, len, content, sizes })
        .boxed()
}

pub fn subs() -> Vec<Box<dyn DynSub>> {
    vec![
        Box::new(PropSub::<TreeCase> {
            name: "decompositions",
            rule: "proptest: (mode incl. new_from_context_key, input 1025 B..256 KiB quick / 4 MiB thorough, depth-first split decisions, per-leaf update sizes): every node is either hashed as one subtree (a fresh hasher, or in half of the cases one long-lived worker re-seeded per leaf by clone_from(template) / reset(); in a third of the cases the offset is first set elsewhere and then to its real value; set_input_offset + updates + finalize_non_root, CV compared with the spec subtree CV) or split at left_subtree_len and merged; root via merge_subtrees_root and _root_xof vs spec whole-input hash/XOF and the crate's own hash; non-trivial = >=3 leaves, one of them multi-chunk, generated update splits",
            cases: (16_000, 120_000),
            strategy: tree_strategy,
            classify: classify_tree,
            check: check_tree,
            known: None,
            crumb: false,
        }),
        Box::new(PropSub::<GroupCase> {
            name: "groups",
            rule: "proptest: fixed groups of 2^g chunks (g<=6) hashed at their offsets and merged layer by layer (odd CV moves up); non-trivial = >=3 groups",
            cases: (6_000, 40_000),
            strategy: group_strategy,
            classify: classify_groups,
            check: check_groups,
            known: None,
            crumb: false,
        }),
        Box::new(PropSub::<FarCase> {
            name: "far-offsets",
            rule: "proptest: one subtree at a chunk index from the lattice {small, 2^k, odd*2^k, 2^32+-17, 2^54-d, random < 2^54}, length <= min(max_subtree_len, 64 KiB), generated update splits; CV vs spec subtree CV at that counter, max_subtree_len vs closed form; non-trivial = chunk index >= 2^32 or >=2 update sizes",
            cases: (40_000, 300_000),
            strategy: far_strategy,
            classify: classify_far,
            check: check_far,
            known: None,
            crumb: false,
        }),
        Box::new(EnumSub::<HelperCase> {
            name: "helpers-lattice",
            rule: "enumeration: left_subtree_len(n) for n = 2^k+d and 3*2^(k-1)+d (k=10..63, |d|<=3), 2^64-1-d (d<=8), every n in 1025..=6000; max_subtree_len(1024*c) for c = odd*2^k (k<=53), c=1..300 and 0; vs closed forms (largest power of two below n; 1024*2^tz(c); None)",
            items: helper_items,
            classify: |c| Classes::new(true).tag(matches!(c, HelperCase::Left(_)), "left_subtree_len").tag(matches!(c, HelperCase::Max(_)), "max_subtree_len"),
            check: check_helper,
            exhaustive: false,
            known: None,
            crumb: false,
        }),
        Box::new(PropSub::<HelperCase> {
            name: "helpers-random",
            rule: "proptest: random u64 arguments of the two helpers vs closed forms",
            cases: (100_000, 2_000_000),
            strategy: helper_random,
            classify: |c| Classes::new(true).tag(matches!(c, HelperCase::Left(_)), "left_subtree_len").tag(matches!(c, HelperCase::Max(_)), "max_subtree_len"),
            check: check_helper,
            known: None,
            crumb: false,
        }),
    ]
}
