//! C02 — incremental hashing is independent of input splitting; finalize is a pure query.

use crate::ensure;
use crate::gen::{self, Content, ModeC};
use crate::hist::{self, Size};
use crate::props::c01;
use crate::runner::{eq_bytes, Classes, DynSub, PropSub, Tier};
use proptest::prelude::*;
use serde::{Deserialize, Serialize};

#[derive(Clone, Debug, Serialize, Deserialize, PartialEq, Eq)]
pub enum Op {
    Update(Size),
    Write(Size),
    WriteAll(Size),
    IoCopy(Size),
    UpdateReader(Size, u64),
    UpdateRayon(Size),
    UpdateMmap(Size),
    UpdateMmapRayon(Size),
    Finalize,
    FinalizeXof(u16),
    Count,
    /// clone the selected hasher into slot `to`
    Clone(u8),
    Select(u8),
}

impl Op {
    pub fn absorbing(&self) -> Option<&Size> {
        match self {
            Op::Update(s) | Op::Write(s) | Op::WriteAll(s) | Op::IoCopy(s) | Op::UpdateReader(s, _) | Op::UpdateRayon(s)
            | Op::UpdateMmap(s) | Op::UpdateMmapRayon(s) => Some(s),
            _ => None,
        }
    }
}

#[derive(Clone, Debug, Serialize, Deserialize)]
pub struct History {
    pub mode: ModeC,
    pub content: Content,
    pub budget: u32,
    pub ops: Vec<Op>,
}

struct Slot {
    h: blake3::Hasher,
    model: b3spec::Incr,
}

/// Compare every observable of a hasher with the model of the bytes it absorbed.
pub fn observe(what: &str, h: &blake3::Hasher, model: &b3spec::Incr, mode: &ModeC, xof_n: usize, oneshot: bool) -> Result<(), String> {
    ensure!(h.count() == model.len(), "{}: count() = {} but {} bytes were absorbed", what, h.count(), model.len());
    let out = model.output();
    let got = h.finalize();
    eq_bytes(&format!("{}: finalize() vs spec", what), got.as_bytes(), &out.hash())?;
    if xof_n > 0 {
        let mut buf = vec![0u8; xof_n];
        h.finalize_xof().fill(&mut buf);
        eq_bytes(&format!("{}: finalize_xof() first {} bytes vs spec", what, xof_n), &buf, &out.xof(0, xof_n))?;
    }
    if oneshot && !matches!(mode, ModeC::DeriveCk(_)) {
        let os = c01::oneshot(mode, &model.bytes);
        eq_bytes(&format!("{}: finalize() vs one-shot function", what), got.as_bytes(), &os)?;
    }
    // finalize is a pure query: a second call agrees
    ensure!(h.finalize() == got, "{}: second finalize() differs from the first", what);
    ensure!(h.count() == model.len(), "{}: count() changed by finalize", what);
    Ok(())
}

pub fn check(c: &History) -> Result<(), String> {
    let data = c.content.expand(c.budget as usize);
    let mut cursor = 0usize;
    let mut slots: Vec<Slot> = vec![Slot { h: c.mode.hasher(), model: b3spec::Incr::new(c.mode.kf()) }];
    let mut cur = 0usize;
    observe("fresh hasher", &slots[0].h, &slots[0].model, &c.mode, 65, true)?;
    for (i, op) in c.ops.iter().enumerate() {
        let what = format!("after op #{} {:?} on slot {}", i, op, cur);
        if let Some(sz) = op.absorbing() {
            let n = sz.resolve(slots[cur].model.len(), data.len() - cursor);
            let bytes = &data[cursor..cursor + n];
            cursor += n;
            let s = &mut slots[cur];
            match op {
                Op::Update(_) => {
                    s.h.update(bytes);
                }
                #[cfg(feature = "full")]
                Op::Write(_) => {
                    use std::io::Write;
                    let w = s.h.write(bytes).map_err(|e| format!("{}: write error {}", what, e))?;
                    ensure!(w == bytes.len(), "{}: Write::write consumed {} of {} bytes", what, w, bytes.len());
                    s.h.flush().map_err(|e| format!("{}: flush error {}", what, e))?;
                }
                #[cfg(feature = "full")]
                Op::WriteAll(_) if bytes.len() % 3 == 2 => {
                    // one time in three: the same bytes as [13-byte head, body, 5-byte tail] through write_vectored,
                    // repeated on what remains after a partial write (as write_all_vectored does)
                    use std::io::Write;
                    let a = core::cmp::min(13, bytes.len());
                    let b = bytes.len() - core::cmp::min(5, bytes.len() - a);
                    let mut rest: [&[u8]; 3] = [&bytes[..a], &bytes[a..b], &bytes[b..]];
                    let mut guard = 0;
                    while rest.iter().any(|x| !x.is_empty()) {
                        let bufs = [std::io::IoSlice::new(rest[0]), std::io::IoSlice::new(rest[1]), std::io::IoSlice::new(rest[2])];
                        let mut n = s.h.write_vectored(&bufs).map_err(|e| format!("{}: write_vectored error {}", what, e))?;
                        ensure!(n > 0 && n <= rest.iter().map(|x| x.len()).sum::<usize>(), "{}: write_vectored returned {}", what, n);
                        for x in rest.iter_mut() {
                            let k = core::cmp::min(n, x.len());
                            *x = &x[k..];
                            n -= k;
                        }
                        guard += 1;
                        ensure!(guard < 100_000, "ENGINE: write_vectored loop does not terminate");
                    }
                }
                #[cfg(feature = "full")]
                Op::WriteAll(_) => {
                    use std::io::Write;
                    s.h.write_all(bytes).map_err(|e| format!("{}: write_all error {}", what, e))?;
                }
                #[cfg(feature = "full")]
                Op::IoCopy(_) => {
                    let mut r = bytes;
                    let w = std::io::copy(&mut r, &mut s.h).map_err(|e| format!("{}: io::copy error {}", what, e))?;
                    ensure!(w == bytes.len() as u64, "{}: io::copy moved {} of {} bytes", what, w, bytes.len());
                }
                #[cfg(feature = "full")]
                Op::UpdateReader(_, seed) => {
                    let mut r = hist::ShortReader::new(bytes, *seed);
                    s.h.update_reader(&mut r).map_err(|e| format!("{}: update_reader error {}", what, e))?;
                    ensure!(r.pos == bytes.len(), "{}: update_reader stopped after {} of {} bytes", what, r.pos, bytes.len());
                }
                #[cfg(feature = "full")]
                Op::UpdateRayon(_) => {
                    s.h.update_rayon(bytes);
                }
                #[cfg(feature = "full")]
                Op::UpdateMmap(_) | Op::UpdateMmapRayon(_) if bytes.len() % 4 == 3 => {
                    // one time in four the path is not a mappable regular file but a named pipe delivering the same bytes
                    // in three pieces (the documented fallback to ordinary reads)
                    let third = (bytes.len() / 3) as u32;
                    let rayon = matches!(op, Op::UpdateMmapRayon(_));
                    let h = &mut s.h;
                    let r = crate::props::c11::through_fifo(bytes, &[third, third], 200, |path| if rayon { h.update_mmap_rayon(path).map(|_| ()) } else { h.update_mmap(path).map(|_| ()) })?;
                    r.map_err(|e| format!("{}: update_mmap{} on a named pipe: {}", what, if rayon { "_rayon" } else { "" }, e))?;
                }
                #[cfg(feature = "full")]
                Op::UpdateMmap(_) | Op::UpdateMmapRayon(_) => {
                    let f = hist::ScratchFile::with_bytes("c02", bytes).map_err(|e| format!("ENGINE scratch file: {}", e))?;
                    if matches!(op, Op::UpdateMmap(_)) {
                        s.h.update_mmap(&f.path).map_err(|e| format!("{}: update_mmap error {}", what, e))?;
                    } else {
                        s.h.update_mmap_rayon(&f.path).map_err(|e| format!("{}: update_mmap_rayon error {}", what, e))?;
                    }
                }
                #[cfg(not(feature = "full"))]
                _ => {
                    s.h.update(bytes);
                }
                #[cfg(feature = "full")]
                _ => unreachable!(),
            }
            s.model.push(bytes);
            observe(&what, &s.h, &s.model, &c.mode, 0, false)?;
        } else {
            match op {
                Op::Finalize => {
                    let s = &slots[cur];
                    observe(&what, &s.h, &s.model, &c.mode, 0, true)?;
                }
                Op::FinalizeXof(n) => {
                    let s = &slots[cur];
                    observe(&what, &s.h, &s.model, &c.mode, *n as usize, false)?;
                }
                Op::Count => {
                    let s = &slots[cur];
                    ensure!(s.h.count() == s.model.len(), "{}: count() = {} expected {}", what, s.h.count(), s.model.len());
                }
                Op::Clone(to) => {
                    // to = 0..2: `slot = current.clone()`; to = 3..5: `slot.clone_from(&current)` into the existing,
                    // already used hasher of that slot (Clone::clone_from may reuse the destination's storage)
                    let model = slots[cur].model.clone();
                    let in_place = (*to as usize) % 6 >= 3;
                    let to = (*to as usize) % 3;
                    if to < slots.len() {
                        if in_place && to != cur {
                            let (a, b) = if to < cur {
                                let (x, y) = slots.split_at_mut(cur);
                                (&mut x[to], &y[0])
                            } else {
                                let (x, y) = slots.split_at_mut(to);
                                (&mut y[0], &x[cur])
                            };
                            a.h.clone_from(&b.h);
                            a.model = model;
                        } else {
                            let h = slots[cur].h.clone();
                            slots[to] = Slot { h, model };
                        }
                    } else {
                        let h = slots[cur].h.clone();
                        slots.push(Slot { h, model });
                    }
                }
                Op::Select(k) => {
                    cur = (*k as usize) % slots.len();
                }
                _ => unreachable!(),
            }
        }
    }
    // at the end every live instance still describes exactly its own bytes
    for (k, s) in slots.iter().enumerate() {
        observe(&format!("end of history, slot {}", k), &s.h, &s.model, &c.mode, 200, true)?;
    }
    Ok(())
}

pub fn classify(c: &History) -> Classes {
    // dry-run the size resolution on one slot model (lengths only)
    let mut lens = vec![0u64];
    let mut cur = 0usize;
    let mut cursor = 0usize;
    let mut absorbing = 0;
    let mut off_chunk_boundary = false;
    let mut zero_len = false;
    let mut fin_then_more = false;
    let mut finalized = vec![false];
    let mut diverged = false;
    let mut cloned = false;
    let mut aligned8 = false;
    let mut aligned16 = false;
    let mut total_max = 0u64;
    for op in &c.ops {
        if let Some(sz) = op.absorbing() {
            let before = lens[cur];
            let n = sz.resolve(before, c.budget as usize - cursor);
            cursor += n;
            absorbing += 1;
            zero_len |= n == 0;
            if n > 0 {
                fin_then_more |= finalized[cur];
                diverged |= cloned;
            }
            lens[cur] += n as u64;
            off_chunk_boundary |= lens[cur] % 1024 != 0;
            let odd_prefix = before > 0 && (before / 1024) % 2 == 1 || before % 1024 != 0;
            aligned8 |= odd_prefix && n >= 8 * 1024;
            aligned16 |= odd_prefix && n >= 16 * 1024;
            total_max = total_max.max(lens[cur]);
        } else {
            match op {
                Op::Finalize | Op::FinalizeXof(_) => finalized[cur] = true,
                Op::Clone(to) => {
                    let to = (*to as usize) % 3;
                    cloned = true;
                    if to < lens.len() {
                        lens[to] = lens[cur];
                        finalized[to] = finalized[cur];
                    } else {
                        lens.push(lens[cur]);
                        finalized.push(finalized[cur]);
                    }
                }
                Op::Select(k) => cur = (*k as usize) % lens.len(),
                _ => {}
            }
        }
    }
    let mut cl = Classes::new(absorbing >= 2 && total_max > 1024 && off_chunk_boundary)
        .tag(true, c.mode.tag())
        .tag(zero_len, "zero-length-absorb")
        .tag(fin_then_more, "finalize-then-continue")
        .tag(diverged, "clone-then-diverge")
        .tag(aligned8, ">=8-chunk-update-after-odd-prefix")
        .tag(aligned16, ">=16-chunk-update-after-odd-prefix")
        .tag(total_max > 16 * 1024, "total>16chunks")
        .tag(total_max > 64 * 1024, "total>64chunks");
    for op in &c.ops {
        let t = match op {
            Op::Update(_) => "api=update",
            Op::Write(_) => "api=Write::write",
            Op::WriteAll(_) => "api=write_all",
            Op::IoCopy(_) => "api=io::copy",
            Op::UpdateReader(..) => "api=update_reader",
            Op::UpdateRayon(_) => "api=update_rayon",
            Op::UpdateMmap(_) => "api=update_mmap",
            Op::UpdateMmapRayon(_) => "api=update_mmap_rayon",
            _ => continue,
        };
        if !cl.tags.contains(&t) {
            cl.tags.push(t);
        }
    }
    cl
}

pub fn op_strategy(max_abs: u32, with_io: bool) -> BoxedStrategy<Op> {
    let sz = || hist::size(max_abs);
    if with_io {
        prop_oneof![
            10 => sz().prop_map(Op::Update),
            2 => sz().prop_map(Op::Write),
            1 => sz().prop_map(Op::WriteAll),
            1 => sz().prop_map(Op::IoCopy),
            2 => (sz(), any::<u64>()).prop_map(|(s, r)| Op::UpdateReader(s, r)),
            2 => sz().prop_map(Op::UpdateRayon),
            1 => sz().prop_map(Op::UpdateMmap),
            1 => sz().prop_map(Op::UpdateMmapRayon),
            3 => Just(Op::Finalize),
            2 => (0u16..=300).prop_map(Op::FinalizeXof),
            1 => Just(Op::Count),
            3 => (0u8..6).prop_map(Op::Clone),
            2 => (0u8..3).prop_map(Op::Select),
        ]
        .boxed()
    } else {
        prop_oneof![
            12 => sz().prop_map(Op::Update),
            3 => Just(Op::Finalize),
            2 => (0u16..=300).prop_map(Op::FinalizeXof),
            1 => Just(Op::Count),
            3 => (0u8..6).prop_map(Op::Clone),
            2 => (0u8..3).prop_map(Op::Select),
        ]
        .boxed()
    }
}

pub fn history_strategy(tier: Tier, with_io: bool) -> BoxedStrategy<History> {
    let budget: u32 = tier.pick(256 * 1024, 8 * 1024 * 1024);
    let max_ops = tier.pick(40usize, 200usize);
    let max_abs = tier.pick(70_000u32, 1_200_000u32);
    (
        gen::mode4(),
        gen::content(),
        prop::collection::vec(op_strategy(max_abs, with_io), 0..=max_ops),
        prop_oneof![1 => Just(budget / 8), 3 => Just(budget)],
    )
        .prop_map(|(mode, content, ops, budget)| History { mode, content, budget, ops })
        .boxed()
}

fn strategy(tier: Tier) -> BoxedStrategy<History> {
    history_strategy(tier, cfg!(feature = "full"))
}

/// Few, long operations: single calls of 64 KiB .. 12 MiB through every absorbing API after odd prefixes
/// (subtree ramp-up after an unaligned count, read-buffer and mmap thresholds, rayon splitting depth).
fn large_strategy(tier: Tier) -> BoxedStrategy<History> {
    let with_io = cfg!(feature = "full");
    let max = tier.pick(6u32 << 20, 12u32 << 20);
    let big = prop_oneof![
        3 => (6u32..=13, -3i32..=3, any::<bool>()).prop_map(|(j, d, x)| (((1024u32 << j) as i32) + d * if x { 1 } else { 1024 }) as u32),
        2 => 65_536u32..=1_200_000,
        2 => (1u32 << 20)..=max,
    ];
    let small = prop_oneof![2 => 0u32..=70, 2 => 0u32..=3000, 1 => (0u32..=70).prop_map(|c| c * 1024), 2 => 0u32..=70_000];
    let api = move |sz: u32, a: u8, seed: u64| -> Op {
        let s = Size::Abs(sz);
        if !with_io {
            return Op::Update(s);
        }
        match a % 10 {
            0 | 1 | 2 => Op::Update(s),
            3 => Op::WriteAll(s),
            4 => Op::IoCopy(s),
            5 | 6 => Op::UpdateReader(s, seed),
            7 => Op::UpdateRayon(s),
            8 => Op::UpdateMmap(s),
            _ => Op::UpdateMmapRayon(s),
        }
    };
    let step = (small, big, any::<u8>(), any::<u64>(), 0u8..6).prop_map(move |(pre, sz, a, seed, tail)| {
        let mut v = vec![Op::Update(Size::Abs(pre)), api(sz, a, seed)];
        match tail {
            0 => v.push(Op::Finalize),
            1 => v.push(Op::FinalizeXof(200)),
            2 => v.push(Op::Count),
            3 => {
                v.push(Op::Clone(1));
                v.push(Op::Finalize);
            }
            _ => {}
        }
        v
    });
    (gen::mode4(), gen::content(), prop::collection::vec(step, 1..=3))
        .prop_map(|(mode, content, steps)| {
            let mut ops: Vec<Op> = steps.into_iter().flatten().collect();
            ops.push(Op::Finalize);
            History { mode, content, budget: 40 << 20, ops }
        })
        .boxed()
}

/// Updates beyond 32-bit sizes: a prefix, then ONE update of `len` zero bytes (lazily mapped
/// zero pages, no RAM), then a suffix; serial or rayon.
#[derive(Clone, Debug, Serialize, Deserialize)]
pub struct HugeCase {
    pub mode: ModeC,
    pub prefix: u32,
    pub len: u64,
    pub suffix: u32,
    pub rayon: bool,
}

pub fn check_huge(c: &HugeCase) -> Result<(), String> {
    let big = vec![0u8; c.len as usize];
    let small = Content { kind: 3, seed: c.len ^ 77 }.expand(c.prefix as usize + c.suffix as usize);
    let (pre, suf) = small.split_at(c.prefix as usize);
    let mut h = c.mode.hasher();
    h.update(pre);
    if c.rayon && cfg!(feature = "full") {
        #[cfg(feature = "full")]
        h.update_rayon(&big);
    } else {
        h.update(&big);
    }
    h.update(suf);
    ensure!(h.count() == c.prefix as u64 + c.len + c.suffix as u64, "count() = {} after {} + {} + {} bytes", h.count(), c.prefix, c.len, c.suffix);
    let mut all = Vec::with_capacity(c.prefix as usize + c.len as usize + c.suffix as usize);
    all.extend_from_slice(pre);
    all.extend_from_slice(&big);
    all.extend_from_slice(suf);
    drop(big);
    let want = b3spec::root(&c.mode.kf(), &all).xof(0, 100);
    let mut got = vec![0u8; 100];
    h.finalize_xof().fill(&mut got);
    eq_bytes(&format!("hasher after one update of {} bytes (prefix {}, suffix {}) vs spec", c.len, c.prefix, c.suffix), &got, &want)
}

fn huge_items(tier: Tier) -> Box<dyn Iterator<Item = HugeCase>> {
    let mut v = vec![
        HugeCase { mode: ModeC::Hash, prefix: 1, len: (1u64 << 31) + 1024, suffix: 5, rayon: false },
        HugeCase { mode: ModeC::Hash, prefix: 0, len: 1u64 << 32, suffix: 0, rayon: false },
    ];
    if tier == Tier::Thorough {
        v.push(HugeCase { mode: ModeC::Keyed(*gen::TEST_KEY), prefix: 0, len: (1u64 << 32) + 1, suffix: 0, rayon: false });
        v.push(HugeCase { mode: ModeC::Hash, prefix: 1025, len: 1u64 << 32, suffix: 1, rayon: true });
        v.push(HugeCase { mode: ModeC::Hash, prefix: 3 * 1024, len: (1u64 << 32) + 5 * 1024 + 3, suffix: 70, rayon: false });
    }
    Box::new(v.into_iter())
}

pub fn subs() -> Vec<Box<dyn DynSub>> {
    let mut v: Vec<Box<dyn DynSub>> = vec![Box::new(PropSub::<History> {
        name: "histories",
        rule: "proptest: histories of update/Write/io::copy/update_reader/update_rayon/update_mmap*/finalize/finalize_xof/count/clone/clone_from/select over <=3 hashers of one mode (0-40 ops, <=256 KiB quick; 0-200 ops, <=8 MiB thorough), sizes resolved against the running total (block/chunk/power-of-two/SIMD-degree boundaries +-delta); model = independent spec over the bytes absorbed by each instance, compared after every op; non-trivial = >=2 absorbing ops, >1 chunk total, some op boundary off a chunk boundary",
        cases: (48_000, 400_000),
        strategy,
        classify,
        check,
        known: None,
        crumb: false,
    }),
    Box::new(PropSub::<History> {
        name: "large-ops",
        rule: "proptest: 1-3 steps of (short odd prefix 0-70000 bytes, then ONE call of 64 KiB-6 MiB (quick) / 12 MiB (thorough): 2^j chunks +-3 bytes/chunks, or random) through update / write_all / io::copy / update_reader / update_rayon / update_mmap(_rayon), then finalize/xof/count/clone; same model oracle; non-trivial as for histories",
        cases: (160, 6_000),
        strategy: large_strategy,
        classify,
        check,
        known: None,
        crumb: false,
    }),
    Box::new(crate::runner::EnumSub::<HugeCase> {
        name: "huge-update",
        rule: "enumeration: one update of 2^31+1024 bytes after a 1-byte prefix and one of exactly 2^32 bytes (quick); single updates of 2^32+1, 2^32 (rayon, after 1025 bytes) and 2^32+5123 bytes after a 3-chunk prefix (thorough); count() and 100 XOF bytes vs spec (sizes beyond 32-bit arithmetic)",
        items: huge_items,
        classify: |c| Classes::new(true).tag(c.len >= (1u64 << 32), "update>=2^32-bytes").tag(c.rayon, "rayon"),
        check: check_huge,
        exhaustive: false,
        known: None,
        crumb: false,
    })];
    #[cfg(feature = "full")]
    v.push(Box::new(crate::runner::EnumSub::<crate::props::c11::FCase> {
        name: "unmappable-files",
        rule: "enumeration: update_mmap / update_mmap_rayon / update_reader on files of this system that cannot be memory-mapped or have no length (sysfs binary attribute, procfs files), present with stable content: the documented fallback to ordinary reads must absorb exactly the file's bytes (same oracle as C11 files-lattice; shared code)",
        items: |_| {
            let v: Vec<crate::props::c11::FCase> =
                ["/sys/kernel/btf/vmlinux", "/proc/kallsyms", "/proc/version", "/sys/kernel/notes"].iter().map(|p| crate::props::c11::FCase::Special { path: p.to_string() }).collect();
            Box::new(v.into_iter())
        },
        classify: |_| Classes::new(true).tag(true, "special-path"),
        check: crate::props::c11::check_file,
        exhaustive: false,
        known: None,
        crumb: false,
    }));
    v
}
