//! C10 — reset() restores the initial state after any history; clones are independent.

use crate::ensure;
use crate::gen::{self, Content, ModeC};
use crate::hist::{self, Size};
use crate::runner::{eq_bytes, Classes, DynSub, PropSub, Tier};
use blake3::hazmat::HasherExt;
use proptest::prelude::*;
use serde::{Deserialize, Serialize};

#[derive(Clone, Debug, Serialize, Deserialize, PartialEq, Eq)]
pub enum Op {
    /// set_input_offset(1024 * chunk_index); only applied while count() == 0
    SetOffset(u64),
    Update(Size),
    Finalize,
    FinalizeXof(u16),
    FinalizeNonRoot,
    Count,
    Reset,
    /// trait-level reset (digest::Reset), when available
    TraitReset,
    /// trait-level resetting finalizers: k % 8 selects finalize_fixed_reset / finalize_xof_reset / Mac::finalize_reset / finalize_into_reset /
    /// finalize_xof_reset_into / finalize_boxed_reset / Digest::finalize_reset / DynDigest::finalize_reset, (k / 8) % 4 the output length 0/1/32/100
    TraitFinalizeReset(u8),
    Clone,
    Swap,
}

#[derive(Clone, Debug, Serialize, Deserialize)]
pub struct Case {
    pub mode: ModeC,
    pub content: Content,
    pub budget: u32,
    pub ops: Vec<Op>,
}

struct Slot {
    h: blake3::Hasher,
    /// a hasher constructed fresh at the last reset, fed the same suffix
    twin: Option<blake3::Hasher>,
    model: b3spec::Incr,
    resets: u32,
}

fn max_subtree_bytes(base: u64) -> Option<u64> {
    if base == 0 {
        None
    } else {
        Some(1024u64 << base.trailing_zeros())
    }
}

fn observe(what: &str, s: &Slot, xof_n: usize) -> Result<(), String> {
    let n = s.model.len();
    ensure!(s.h.count() == n, "{}: count() = {} but {} bytes absorbed since the last reset/construction", what, s.h.count(), n);
    if let Some(t) = &s.twin {
        ensure!(t.count() == s.h.count(), "{}: count() {} differs from fresh twin {}", what, s.h.count(), t.count());
    }
    if s.model.base == 0 {
        let out = s.model.output();
        let got = s.h.finalize();
        eq_bytes(&format!("{}: finalize() vs spec", what), got.as_bytes(), &out.hash())?;
        if let Some(t) = &s.twin {
            ensure!(t.finalize() == got, "{}: finalize() differs from a freshly constructed hasher fed the same suffix", what);
        }
        if xof_n > 0 {
            let mut a = vec![0u8; xof_n];
            s.h.finalize_xof().fill(&mut a);
            eq_bytes(&format!("{}: xof vs spec", what), &a, &out.xof(0, xof_n))?;
            if let Some(t) = &s.twin {
                let mut b = vec![0u8; xof_n];
                t.finalize_xof().fill(&mut b);
                ensure!(a == b, "{}: xof differs from fresh twin", what);
            }
        }
    }
    if n > 0 {
        let cv = s.h.finalize_non_root();
        eq_bytes(&format!("{}: finalize_non_root() vs spec subtree CV at chunk {}", what, s.model.base), &cv, &s.model.output().chaining_value_bytes())?;
        if let Some(t) = &s.twin {
            ensure!(t.finalize_non_root() == cv, "{}: finalize_non_root() differs from fresh twin", what);
        }
    }
    Ok(())
}

pub fn check(c: &Case) -> Result<(), String> {
    let data = c.content.expand(c.budget as usize);
    let mut cursor = 0usize;
    let mut slots = vec![Slot { h: c.mode.hasher(), twin: None, model: b3spec::Incr::new(c.mode.kf()), resets: 0 }];
    let mut cur = 0usize;
    for (i, op) in c.ops.iter().enumerate() {
        let what = format!("op #{} {:?} (slot {}, {} resets so far)", i, op, cur, slots[cur].resets);
        match op {
            Op::SetOffset(ci) => {
                let s = &mut slots[cur];
                if s.model.len() == 0 {
                    s.h.set_input_offset(ci * 1024);
                    if let Some(t) = &mut s.twin {
                        t.set_input_offset(ci * 1024);
                    }
                    s.model = b3spec::Incr::with_base(c.mode.kf(), *ci);
                }
            }
            Op::Update(sz) => {
                let s = &mut slots[cur];
                let mut max = data.len() - cursor;
                if let Some(m) = max_subtree_bytes(s.model.base) {
                    max = core::cmp::min(max as u64, m - s.model.len()) as usize;
                }
                let n = sz.resolve(s.model.len(), max);
                let bytes = &data[cursor..cursor + n];
                cursor += n;
                s.h.update(bytes);
                if let Some(t) = &mut s.twin {
                    t.update(bytes);
                }
                s.model.push(bytes);
                observe(&what, s, 0)?;
            }
            Op::Finalize | Op::FinalizeNonRoot | Op::Count => observe(&what, &slots[cur], 0)?,
            Op::FinalizeXof(n) => observe(&what, &slots[cur], *n as usize)?,
            Op::TraitFinalizeReset(_) if slots[cur].model.base != 0 => {
                // finalize() is documented to panic while an input offset is set: outside the domain
            }
            Op::Reset | Op::TraitReset | Op::TraitFinalizeReset(_) => {
                let s = &mut slots[cur];
                match op {
                    #[cfg(feature = "full")]
                    Op::TraitReset => blake3::traits::digest::Reset::reset(&mut s.h),
                    #[cfg(feature = "full")]
                    Op::TraitFinalizeReset(k) => {
                        use blake3::traits::digest as dg;
                        let want = s.model.output().hash().to_vec();
                        // every resetting finalizer of the digest traits; the `_into` / boxed forms with output
                        // lengths 0, 1, 32 and 100 (an empty output buffer must reset the hasher like any other)
                        let n = [0usize, 1, 32, 100][(*k as usize / 8) % 4];
                        let want_n = s.model.output().xof(0, n);
                        let (got, want): (Vec<u8>, Vec<u8>) = match k % 8 {
                            0 => (dg::FixedOutputReset::finalize_fixed_reset(&mut s.h).to_vec(), want),
                            1 => {
                                let mut r = dg::ExtendableOutputReset::finalize_xof_reset(&mut s.h);
                                let mut o = vec![0u8; 32];
                                dg::XofReader::read(&mut r, &mut o);
                                (o, want)
                            }
                            2 => (dg::Mac::finalize_reset(&mut s.h).into_bytes().to_vec(), want),
                            3 => {
                                let mut o = dg::Output::<blake3::Hasher>::default();
                                dg::FixedOutputReset::finalize_into_reset(&mut s.h, &mut o);
                                (o.to_vec(), want)
                            }
                            4 => {
                                let mut o = vec![0u8; n];
                                dg::ExtendableOutputReset::finalize_xof_reset_into(&mut s.h, &mut o);
                                (o, want_n)
                            }
                            5 => (dg::ExtendableOutputReset::finalize_boxed_reset(&mut s.h, n).to_vec(), want_n),
                            6 => (dg::Digest::finalize_reset(&mut s.h).to_vec(), want),
                            _ => (dg::DynDigest::finalize_reset(&mut s.h).to_vec(), want),
                        };
                        eq_bytes(&format!("{}: output of the resetting finalizer", what), &got, &want)?;
                    }
                    _ => {
                        s.h.reset();
                    }
                }
                s.twin = Some(c.mode.hasher());
                s.model = b3spec::Incr::new(c.mode.kf());
                s.resets += 1;
                observe(&what, s, 64)?;
            }
            Op::Clone => {
                let s = &slots[cur];
                let copy = Slot { h: s.h.clone(), twin: s.twin.clone(), model: s.model.clone(), resets: s.resets };
                if slots.len() == 1 {
                    slots.push(copy);
                } else if s.model.len() % 2 == 1 {
                    // every other time: Clone::clone_from into the other, already used hasher
                    let (x, y) = slots.split_at_mut(1);
                    let (dst, src) = if cur == 0 { (&mut y[0], &x[0]) } else { (&mut x[0], &y[0]) };
                    dst.h.clone_from(&src.h);
                    dst.twin = copy.twin;
                    dst.model = copy.model;
                    dst.resets = copy.resets;
                } else {
                    slots[1 - cur] = copy;
                }
            }
            Op::Swap => {
                if slots.len() == 2 {
                    cur = 1 - cur;
                }
            }
        }
    }
    for (k, s) in slots.iter().enumerate() {
        observe(&format!("end of history, slot {}", k), s, 100)?;
    }
    Ok(())
}

pub fn classify(c: &Case) -> Classes {
    // lengths-only dry run of slot 0 semantics (both slots tracked)
    #[derive(Clone, Copy)]
    struct L {
        base: u64,
        n: u64,
        dirty_at_reset: bool,
        resets: u32,
        after_reset: u64,
    }
    let mut ls = vec![L { base: 0, n: 0, dirty_at_reset: false, resets: 0, after_reset: 0 }];
    let mut cur = 0usize;
    let mut cursor = 0usize;
    let mut reset_with_offset = false;
    let mut reset_with_stack = false;
    let mut reset_with_partial = false;
    let mut offset_after_reset = false;
    let mut big_offset = false;
    for op in &c.ops {
        match op {
            Op::SetOffset(ci) => {
                if ls[cur].n == 0 {
                    ls[cur].base = *ci;
                    if ls[cur].resets > 0 && *ci > 0 {
                        offset_after_reset = true;
                    }
                    big_offset |= *ci >= (1 << 32);
                }
            }
            Op::Update(sz) => {
                let l = &mut ls[cur];
                let mut max = c.budget as usize - cursor;
                if let Some(m) = max_subtree_bytes(l.base) {
                    max = core::cmp::min(max as u64, m - l.n) as usize;
                }
                let n = sz.resolve(l.n, max);
                cursor += n;
                l.n += n as u64;
                if l.resets > 0 {
                    l.after_reset += n as u64;
                }
            }
            Op::TraitFinalizeReset(_) if ls[cur].base != 0 => {}
            Op::Reset | Op::TraitReset | Op::TraitFinalizeReset(_) => {
                let l = &mut ls[cur];
                let dirty = l.base != 0 || l.n > 1024 || l.n % 1024 != 0;
                reset_with_offset |= l.base != 0;
                reset_with_stack |= l.n > 1024;
                reset_with_partial |= l.n % 1024 != 0;
                l.dirty_at_reset |= dirty;
                l.resets += 1;
                l.base = 0;
                l.n = 0;
                l.after_reset = 0;
            }
            Op::Clone => {
                let copy = ls[cur];
                if ls.len() == 1 {
                    ls.push(copy);
                } else {
                    ls[1 - cur] = copy;
                }
            }
            Op::Swap => {
                if ls.len() == 2 {
                    cur = 1 - cur;
                }
            }
            _ => {}
        }
    }
    let nt = ls.iter().any(|l| l.resets > 0 && l.dirty_at_reset && l.after_reset > 1024);
    Classes::new(nt)
        .tag(true, c.mode.tag())
        .tag(reset_with_offset, "reset-after-input-offset")
        .tag(reset_with_stack, "reset-with-cv-stack")
        .tag(reset_with_partial, "reset-with-partial-chunk")
        .tag(offset_after_reset, "set_input_offset-after-reset")
        .tag(big_offset, "offset-chunk>=2^32")
        .tag(ls.len() == 2, "clone")
        .tag(ls.iter().any(|l| l.resets >= 2), ">=2-resets")
}

pub fn chunk_index() -> BoxedStrategy<u64> {
    prop_oneof![
        2 => Just(0u64),
        3 => 1u64..=40,
        3 => (0u32..=53).prop_map(|k| 1u64 << k),
        2 => (0u32..=40, 0u64..=500).prop_map(|(k, odd)| core::cmp::min((2 * odd + 1) << k, (1u64 << 54) - 1)),
        2 => (0u64..=34).prop_map(|d| (1u64 << 32) - 17 + d),
        1 => (1u64..=40).prop_map(|d| (1u64 << 54) - d),
        // the last 2^k chunks of the counter space: a full subtree here ends at byte 2^64
        1 => (0u32..=7).prop_map(|k| (1u64 << 54) - (1u64 << k)),
        1 => 0u64..(1u64 << 54),
    ]
    .boxed()
}

fn op_strategy(max_abs: u32) -> BoxedStrategy<Op> {
    prop_oneof![
        3 => chunk_index().prop_map(Op::SetOffset),
        10 => hist::size(max_abs).prop_map(Op::Update),
        2 => Just(Op::Finalize),
        1 => (0u16..=200).prop_map(Op::FinalizeXof),
        2 => Just(Op::FinalizeNonRoot),
        1 => Just(Op::Count),
        4 => Just(Op::Reset),
        1 => Just(Op::TraitReset),
        3 => (0u8..32).prop_map(Op::TraitFinalizeReset),
        1 => Just(Op::Clone),
        1 => Just(Op::Swap),
    ]
    .boxed()
}

fn strategy(tier: Tier) -> BoxedStrategy<Case> {
    let budget: u32 = tier.pick(128 * 1024, 2 * 1024 * 1024);
    let max_ops = tier.pick(30usize, 100usize);
    let max_abs = tier.pick(40_000u32, 400_000u32);
    (gen::mode4(), gen::content(), prop::collection::vec(op_strategy(max_abs), 1..=max_ops))
        .prop_map(move |(mode, content, ops)| Case { mode, content, budget, ops })
        .boxed()
}

pub fn subs() -> Vec<Box<dyn DynSub>> {
    vec![Box::new(PropSub::<Case> {
        name: "reset-histories",
        rule: "proptest: histories of set_input_offset (chunk-index lattice up to 2^54-1, applied only while count()==0) / update (sizes resolved against the running total and clamped to the offset's max subtree length) / finalize / finalize_xof / finalize_non_root / count / reset (inherent, digest::Reset and the resetting trait finalizers finalize_fixed_reset / finalize_xof_reset / Mac::finalize_reset) / clone / swap; after each reset a freshly constructed hasher of the same mode runs the suffix in lockstep and both are compared with each other and with the spec subtree model after every op; non-trivial = a reset of a hasher that had an offset, a non-empty CV stack or a partial chunk, followed by > 1 chunk of input",
        cases: (40_000, 400_000),
        strategy,
        classify,
        check,
        known: None,
        crumb: false,
    })]
}
