//! C15 — the reference implementation and the published test vectors agree with the spec.
#![cfg(feature = "full")]

use crate::ensure;
use crate::gen::{self, Content, ModeC};
use crate::hist::{self, Size};
use crate::runner::{eq_bytes, Classes, DynSub, EnumSub, PropSub, Tier};
use crate::selftest::{unhex, FROZEN};
use proptest::prelude::*;
use serde::{Deserialize, Serialize};

#[derive(Clone, Debug, Serialize, Deserialize)]
pub enum VCase {
    Structure,
    Entry { idx: usize, mode: u8 },
}

fn repo_json() -> Result<String, String> {
    let repo = std::env::var("VERIF_REPO").unwrap_or_else(|_| "/repo".to_string());
    std::fs::read_to_string(format!("{}/test_vectors/test_vectors.json", repo)).map_err(|e| format!("ENGINE: cannot read the repository's test_vectors.json: {}", e))
}

const MODES: [&str; 3] = ["hash", "keyed_hash", "derive_key"];

fn pattern(len: usize) -> Vec<u8> {
    (0..len).map(|i| (i % 251) as u8).collect()
}

pub fn check_vectors(c: &VCase) -> Result<(), String> {
    let frozen: serde_json::Value = serde_json::from_str(FROZEN).map_err(|e| format!("ENGINE: frozen vectors: {}", e))?;
    let text = repo_json()?;
    let doc: serde_json::Value = serde_json::from_str(&text).map_err(|e| format!("test_vectors.json does not parse: {}", e))?;
    let compiled = test_vectors::parse_test_cases();
    match c {
        VCase::Structure => {
            ensure!(doc["key"].as_str() == Some("whats the Elvish word for friend"), "key field is {:?}", doc["key"]);
            ensure!(doc["key"].as_str().map(|s| s.as_bytes()) == Some(&test_vectors::TEST_KEY[..]), "key field differs from test_vectors::TEST_KEY");
            ensure!(doc["context_string"].as_str() == Some("BLAKE3 2019-12-27 16:29:52 test vectors context"), "context_string field is {:?}", doc["context_string"]);
            ensure!(doc["context_string"].as_str() == Some(test_vectors::TEST_CONTEXT), "context_string differs from test_vectors::TEST_CONTEXT");
            let cases = doc["cases"].as_array().ok_or("cases is not an array")?;
            ensure!(cases.len() == 35, "{} cases instead of 35", cases.len());
            let lens: Vec<u64> = cases.iter().map(|c| c["input_len"].as_u64().unwrap_or(u64::MAX)).collect();
            let want: Vec<u64> = frozen["cases"].as_array().unwrap().iter().map(|c| c["input_len"].as_u64().unwrap()).collect();
            ensure!(lens == want, "input_len list {:?} differs from the official list", lens);
            ensure!(lens == test_vectors::TEST_CASES.iter().map(|&x| x as u64).collect::<Vec<_>>(), "input_len list differs from test_vectors::TEST_CASES");
            ensure!(test_vectors::OUTPUT_LEN == 131, "OUTPUT_LEN = {}", test_vectors::OUTPUT_LEN);
            ensure!(doc["_comment"] == frozen["_comment"], "_comment field changed");
            ensure!(doc.as_object().map(|o| o.len()) == Some(4), "unexpected top-level fields");
            for (i, cs) in cases.iter().enumerate() {
                ensure!(cs.as_object().map(|o| o.len()) == Some(4), "case {} has unexpected fields", i);
            }
            // the crate's copy compiled into the test_vectors crate is this file
            ensure!(compiled.cases.len() == 35 && compiled.key == "whats the Elvish word for friend" && compiled.context_string == test_vectors::TEST_CONTEXT, "compiled-in vectors differ in structure");
            // painting function = the documented 251-byte pattern
            let mut buf = vec![0u8; 1000];
            test_vectors::paint_test_input(&mut buf);
            ensure!(buf == pattern(1000), "paint_test_input is not the documented i % 251 pattern");
            // the checked-in file is what the optimized implementation generates
            ensure!(test_vectors::generate_json() == text, "test_vectors.json differs from what test_vectors::generate_json() produces with the crate");
            ensure!(doc == frozen, "test_vectors.json differs from the frozen copy of the official vectors");
            Ok(())
        }
        VCase::Entry { idx, mode } => {
            let field = MODES[*mode as usize % 3];
            let cs = &doc["cases"][*idx];
            let len = cs["input_len"].as_u64().ok_or("input_len missing")? as usize;
            let hexs = cs[field].as_str().ok_or_else(|| format!("case {} field {} missing", idx, field))?;
            ensure!(hexs.len() == 262, "case {} {}: {} hex chars instead of 262", idx, field, hexs.len());
            let bytes = unhex(hexs).ok_or_else(|| format!("case {} {}: not lower-case hex", idx, field))?;
            let key = doc["key"].as_str().ok_or("key")?.as_bytes();
            ensure!(key.len() == 32, "key is {} bytes", key.len());
            let mut k = [0u8; 32];
            k.copy_from_slice(key);
            let ctx = doc["context_string"].as_str().ok_or("context_string")?;
            let input = pattern(len);
            let kf = match *mode % 3 {
                0 => b3spec::KeyFlags::hash(),
                1 => b3spec::KeyFlags::keyed(&k),
                _ => b3spec::KeyFlags::derive_key(ctx.as_bytes()),
            };
            let want = b3spec::root(&kf, &input).xof(0, 131);
            eq_bytes(&format!("vector case {} (input_len {}) {} vs spec", idx, len, field), &bytes, &want)?;
            let fz = unhex(serde_json::from_str::<serde_json::Value>(FROZEN).unwrap()["cases"][*idx][field].as_str().unwrap_or("")).unwrap_or_default();
            eq_bytes(&format!("vector case {} {} vs frozen official copy", idx, field), &bytes, &fz)?;
            let comp = &compiled.cases[*idx];
            let comp_hex = match *mode % 3 {
                0 => &comp.hash,
                1 => &comp.keyed_hash,
                _ => &comp.derive_key,
            };
            ensure!(comp_hex == hexs && comp.input_len == len, "compiled-in copy of case {} differs from the file", idx);
            // reference implementation, optimized crate (and C library) on the same input
            let mut r = match *mode % 3 {
                0 => reference_impl::Hasher::new(),
                1 => reference_impl::Hasher::new_keyed(&k),
                _ => reference_impl::Hasher::new_derive_key(ctx),
            };
            r.update(&input);
            let mut out = vec![0u8; 131];
            r.finalize(&mut out);
            eq_bytes(&format!("reference_impl on vector case {} {}", idx, field), &out, &want)?;
            let mut h = match *mode % 3 {
                0 => blake3::Hasher::new(),
                1 => blake3::Hasher::new_keyed(&k),
                _ => blake3::Hasher::new_derive_key(ctx),
            };
            h.update(&input);
            let mut out2 = vec![0u8; 131];
            h.finalize_xof().fill(&mut out2);
            eq_bytes(&format!("crate on vector case {} {}", idx, field), &out2, &want)?;
            #[cfg(feature = "cshim")]
            {
                use crate::cshim;
                for api in [cshim::api_asm(), cshim::api_intr()] {
                    let mut ch = Box::new(cshim::CHasher::zeroed());
                    let mut out3 = vec![0u8; 131];
                    unsafe {
                        match *mode % 3 {
                            0 => (api.init)(&mut *ch),
                            1 => (api.init_keyed)(&mut *ch, k.as_ptr()),
                            _ => (api.init_derive_key_raw)(&mut *ch, ctx.as_ptr() as *const _, ctx.len()),
                        }
                        (api.update)(&mut *ch, input.as_ptr() as *const _, input.len());
                        (api.finalize)(&*ch, out3.as_mut_ptr(), 131);
                    }
                    eq_bytes(&format!("{} on vector case {} {}", api.name, idx, field), &out3, &want)?;
                }
            }
            Ok(())
        }
    }
}

fn vector_items(_tier: Tier) -> Box<dyn Iterator<Item = VCase>> {
    let mut v = vec![VCase::Structure];
    for idx in 0..35 {
        for mode in 0..3u8 {
            v.push(VCase::Entry { idx, mode });
        }
    }
    Box::new(v.into_iter())
}

#[derive(Clone, Debug, Serialize, Deserialize)]
pub struct RCase {
    pub mode: ModeC,
    pub content: Content,
    pub budget: u32,
    pub updates: Vec<Size>,
    pub out_len: u32,
}

pub fn check_ref(c: &RCase) -> Result<(), String> {
    let data = c.content.expand(c.budget as usize);
    let mut r = match &c.mode {
        ModeC::Hash => reference_impl::Hasher::new(),
        ModeC::Keyed(k) => reference_impl::Hasher::new_keyed(k),
        ModeC::Derive(ctx) => reference_impl::Hasher::new_derive_key(&ctx.string()),
        ModeC::DeriveCk(_) => return Err("ENGINE: reference_impl has no context-key constructor".into()),
    };
    let mut h = c.mode.hasher();
    let mut model = b3spec::Incr::new(c.mode.kf());
    let mut cursor = 0usize;
    for (i, sz) in c.updates.iter().enumerate() {
        let n = sz.resolve(model.len(), data.len() - cursor);
        let bytes = &data[cursor..cursor + n];
        cursor += n;
        r.update(bytes);
        h.update(bytes);
        model.push(bytes);
        // finalize is repeatable mid-stream in the reference implementation too
        if i % 3 == 2 {
            let mut o = vec![0u8; 40];
            r.finalize(&mut o);
            eq_bytes(&format!("reference_impl after update #{} ({} bytes so far)", i, model.len()), &o, &model.output().xof(0, 40))?;
        }
    }
    let n = c.out_len as usize;
    let mut out = vec![0u8; n];
    r.finalize(&mut out);
    let want = model.output().xof(0, n);
    eq_bytes(&format!("reference_impl output ({} bytes of input, {} bytes of output)", model.len(), n), &out, &want)?;
    let mut out2 = vec![0u8; n];
    h.finalize_xof().fill(&mut out2);
    eq_bytes("optimized crate vs reference_impl/spec", &out2, &want)?;
    Ok(())
}

pub fn classify_ref(c: &RCase) -> Classes {
    let mut len = 0u64;
    let mut cursor = 0usize;
    let mut crossing = 0;
    for sz in &c.updates {
        let n = sz.resolve(len, c.budget as usize - cursor);
        cursor += n;
        if n > 0 && (len / 1024) != ((len + n as u64 - 1) / 1024) {
            crossing += 1;
        }
        len += n as u64;
    }
    Classes::new(crossing >= 2 && c.out_len > 64)
        .tag(true, c.mode.tag())
        .tag(c.out_len % 4 != 0, "out_len%4!=0")
        .tag(c.out_len % 64 != 0, "out_len%64!=0")
        .tag(c.out_len == 0, "out_len=0")
        .tag(c.out_len > 16_384, "out_len>2^8-blocks")
        .tag(c.out_len > (1 << 22), "out_len>2^16-blocks")
        .tag(len > 16 * 1024, "input>16chunks")
        .tag(len == 0, "empty-input")
}

fn ref_strategy(tier: Tier) -> BoxedStrategy<RCase> {
    let budget = tier.pick(64 * 1024u32, 2 * 1024 * 1024u32);
    let max_abs = tier.pick(20_000u32, 300_000u32);
    // one case in 150: an input of 0.5-1.3 MiB (more than 2^9 chunks) in a few long updates
    let long = (gen::mode3(), gen::content(), prop::collection::vec((100_000u32..=700_000).prop_map(Size::Abs), 1..=4), prop_oneof![Just(32u32), Just(131u32), 0u32..=300])
        .prop_map(|(mode, content, updates, out_len)| RCase { mode, content, budget: 1_400_000, updates, out_len });
    let usual = (gen::mode3(), gen::content(), prop::collection::vec(hist::size(max_abs), 0..=20), prop_oneof![
            40 => 0u32..=3000,
            20 => crate::gen::select(vec![0u32, 1, 31, 32, 33, 63, 64, 65, 128, 131]),
            // output block counters of narrower types wrap after 2^8 blocks (16 KiB) and 2^16 blocks (4 MiB)
            4 => 16_000u32..=17_000,
            2 => 0u32..=200_000,
            1 => (1u32 << 22) - 100..=(1u32 << 22) + 300,
        ])
        .prop_map(move |(mode, content, updates, out_len)| RCase { mode, content, budget, updates, out_len });
    prop_oneof![150 => usual, 1 => long].boxed()
}

pub fn subs() -> Vec<Box<dyn DynSub>> {
    vec![
        Box::new(EnumSub::<VCase> {
            name: "vectors",
            rule: "enumeration: the structure of /repo/test_vectors/test_vectors.json (key, context_string, the 35 input lengths, field sets, _comment, equality with the compiled-in copy, with generate_json() and with the frozen official copy) and each of the 35x3 entries: 131 output bytes vs spec on the documented input pattern, vs the frozen copy, vs reference_impl, the optimized crate and both C library builds",
            items: vector_items,
            classify: |c| Classes::new(true).tag(matches!(c, VCase::Structure), "structure").tag(matches!(c, VCase::Entry { .. }), "entry"),
            check: check_vectors,
            exhaustive: true,
            known: None,
            crumb: false,
        }),
        Box::new(PropSub::<RCase> {
            name: "refimpl-histories",
            rule: "proptest: reference_impl::Hasher in the three modes, 0-20 updates with sizes resolved against the running total (<= 64 KiB quick, 2 MiB thorough; one case in 150 an input of 0.5-1.3 MiB in a few long updates), output length 0..3000 incl. non-multiples of 4 and 64, now and then ~16 KiB, <= 200 KB or 4 MiB +-300 bytes (output block counters of 8/16 bits would wrap there), intermediate finalize calls; oracle = spec xof; the optimized crate is compared on the same history; non-trivial = >=2 updates crossing a chunk boundary and output > 64 bytes",
            cases: (12_000, 100_000),
            strategy: ref_strategy,
            classify: classify_ref,
            check: check_ref,
            known: None,
            crumb: false,
        }),
    ]
}
