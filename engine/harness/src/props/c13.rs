//! C13 — the b3sum checkfile format round-trips and never confuses two paths.
//!
//! In-process on b3sum's own `filepath_to_string` and `parse_check_line`
//! (reached through engine/b3shim, which includes /repo/b3sum/src/main.rs).
#![cfg(feature = "b3")]

use crate::ensure;
use crate::runner::{hex, Classes, DynSub, EnumSub, PropSub, Tier};
use b3shim::b3sum_main::probe;
use proptest::prelude::*;
use serde::{Deserialize, Serialize};
use std::ffi::OsStr;
use std::os::unix::ffi::OsStrExt;
use std::path::Path;

pub const SYMBOLS: &[&[u8]] = &[
    b"a", b"b", b"Z", b"0", b"f", b"x", b" ", b"  ", b") = ", b"BLAKE3 (", b"\\", b"\n", b"\r", b"\\n", b"\\r", b"\t", "\u{e9}".as_bytes(), "\u{65e5}".as_bytes(),
    "\u{1F600}".as_bytes(), "\u{FFFD}".as_bytes(), b"\0", b"\x80", b"\xff", b"\xe2\x82", b"/", b".", b"-", b"=", b"(", b")", b"\\\\", b"'", b"\"", b"*",
];

#[derive(Clone, Debug, Serialize, Deserialize)]
pub struct RtCase {
    /// indices into SYMBOLS
    pub path: Vec<u8>,
    pub tag: bool,
    pub hash: [u8; 32],
    /// 0 = none, 1 = LF, 2 = CRLF
    pub term: u8,
}

pub fn path_bytes(sym: &[u8]) -> Vec<u8> {
    sym.iter().flat_map(|i| SYMBOLS[*i as usize % SYMBOLS.len()].iter().copied()).collect()
}

/// The line b3sum prints for this path (hash_one_input's formatting around filepath_to_string).
pub fn printed_line(path: &[u8], tag: bool, hash_hex: &str, term: u8) -> String {
    let (s, escaped) = probe::filepath_to_string(Path::new(OsStr::from_bytes(path)));
    let mut line = String::new();
    if escaped {
        line.push('\\');
    }
    if tag {
        line.push_str(&format!("BLAKE3 ({}) = {}", s, hash_hex));
    } else {
        line.push_str(&format!("{}  {}", hash_hex, s));
    }
    line.push_str(match term % 3 {
        0 => "",
        1 => "\n",
        _ => "\r\n",
    });
    line
}

fn representable(path: &[u8]) -> bool {
    match std::str::from_utf8(path) {
        Ok(s) => !s.is_empty() && !s.contains('\0') && !s.contains('\u{FFFD}'),
        Err(_) => false,
    }
}

pub fn check_roundtrip(c: &RtCase) -> Result<(), String> {
    let path = path_bytes(&c.path);
    let hx = hex(&c.hash);
    let line = printed_line(&path, c.tag, &hx, c.term);
    // what is printed for ONE path is ONE physical line, whatever the path is (valid UTF-8 or not): the documented
    // escaping (backslash, LF, CR -> two characters each, marker backslash at the start of the line) applies to the
    // lossy UTF-8 form of the path
    let body = match c.term % 3 {
        0 => &line[..],
        1 => &line[..line.len() - 1],
        _ => &line[..line.len() - 2],
    };
    ensure!(!body.contains('\n') && !body.contains('\r'), "the line printed for path {:?} contains a raw line break: {:?}", String::from_utf8_lossy(&path), line);
    {
        let lossy = String::from_utf8_lossy(&path).to_string();
        let needs = lossy.contains('\\') || lossy.contains('\n') || lossy.contains('\r');
        let mut model = String::new();
        for ch in lossy.chars() {
            match ch {
                '\\' if needs => model.push_str("\\\\"),
                '\n' if needs => model.push_str("\\n"),
                '\r' if needs => model.push_str("\\r"),
                other => model.push(other),
            }
        }
        let want = format!("{}{}", if needs { "\\" } else { "" }, if c.tag { format!("BLAKE3 ({}) = {}", model, hx) } else { format!("{}  {}", hx, model) });
        ensure!(body == want, "path {:?} is printed as {:?}, the documented form is {:?}", String::from_utf8_lossy(&path), body, want);
    }
    let r = probe::parse_check_line(&line);
    if representable(&path) {
        let p = r.map_err(|e| format!("b3sum cannot check its own output: line {:?} for path {:?} is rejected: {}", line, String::from_utf8_lossy(&path), e))?;
        ensure!(p.file_path.as_os_str().as_bytes() == &path[..], "line {:?} parses to path {:?} but was printed for {:?}", line, p.file_path, String::from_utf8_lossy(&path));
        ensure!(p.expected_hash == c.hash, "line {:?} parses to hash {} but was printed with {}", line, hex(&p.expected_hash), hx);
    } else {
        match r {
            Err(_) => {}
            Ok(p) => {
                // a path that cannot be represented must be rejected (whatever it parsed to, it is not this path)
                return Err(format!("unrepresentable path {:?} printed as {:?} is accepted at check time as {:?}", String::from_utf8_lossy(&path), line, p.file_path));
            }
        }
    }
    Ok(())
}

pub fn classify_roundtrip(c: &RtCase) -> Classes {
    let p = path_bytes(&c.path);
    let s = String::from_utf8_lossy(&p).to_string();
    let lookalike = s.contains("  ") || s.contains(") = ") || s.contains("BLAKE3 (");
    let esc = p.contains(&b'\\') || p.contains(&b'\n') || p.contains(&b'\r');
    let nonascii = p.iter().any(|b| *b >= 0x80);
    Classes::new(lookalike || esc || nonascii)
        .tag(c.tag, "form=tag")
        .tag(!c.tag, "form=plain")
        .tag(c.term % 3 == 2, "CRLF")
        .tag(lookalike, "separator-look-alike-in-path")
        .tag(esc, "needs-escaping")
        .tag(representable(&p), "representable")
        .tag(!representable(&p), "unrepresentable(invalid-utf8/NUL/U+FFFD/empty)")
        .tag(s.starts_with(' ') || s.ends_with(' '), "leading/trailing-blank")
}

fn rt_strategy(_tier: Tier) -> BoxedStrategy<RtCase> {
    let n = SYMBOLS.len() as u8;
    (prop::collection::vec(0u8..n, 1..=14), any::<bool>(), any::<[u8; 32]>(), 0u8..3).prop_map(|(path, tag, hash, term)| RtCase { path, tag, hash, term }).boxed()
}

// ---------------------------------------------------------------------------
// arbitrary text
// ---------------------------------------------------------------------------

/// The documented unescaping: \\ -> \, \n -> LF, \r -> CR; anything else (or a dangling backslash) is invalid.
fn model_unescape(s: &str) -> Option<String> {
    let mut out = String::new();
    let mut it = s.chars();
    while let Some(c) = it.next() {
        if c == '\\' {
            match it.next() {
                Some('n') => out.push('\n'),
                Some('r') => out.push('\r'),
                Some('\\') => out.push('\\'),
                _ => return None,
            }
        } else {
            out.push(c);
        }
    }
    Some(out)
}

/// An Ok result is checked as a certificate against the line's text.
fn certificate(line: &str, p: &probe::Parsed) -> Result<(), String> {
    let body = line.trim_end_matches(['\r', '\n']);
    let (escaped, rest) = match body.strip_prefix('\\') {
        Some(r) => (true, r),
        None => (false, body),
    };
    let hx = hex(&p.expected_hash);
    let path = p.file_path.to_str().ok_or("accepted path is not UTF-8")?.to_string();
    ensure!(!path.is_empty(), "accepted an empty path from {:?}", line);
    ensure!(!path.contains('\0') && !path.contains('\u{FFFD}'), "accepted a path with NUL or U+FFFD from {:?}", line);
    let mut fields: Vec<&str> = Vec::new();
    if let Some(f) = rest.strip_prefix(&format!("{}  ", hx)) {
        fields.push(f);
    }
    if let Some(m) = rest.strip_prefix("BLAKE3 (") {
        if let Some(f) = m.strip_suffix(&format!(") = {}", hx)) {
            fields.push(f);
        }
    }
    ensure!(!fields.is_empty(), "accepted {:?} with hash {} but the line is neither `<that hash>  <file>` nor `BLAKE3 (<file>) = <that hash>`", line, hx);
    for f in fields {
        let want = if escaped { model_unescape(f) } else { Some(f.to_string()) };
        if want.as_deref() == Some(path.as_str()) {
            return Ok(());
        }
    }
    Err(format!("accepted {:?} as path {:?}, which is not the (documented unescaping of the) path part of the line", line, path))
}

#[derive(Clone, Debug, Serialize, Deserialize)]
pub enum TextCase {
    /// any text
    Raw(String),
    /// a valid base line with one character replaced / inserted / deleted
    Mutant { base: u8, pos: u16, kind: u8, ch: u8 },
    /// constructed members of the always-error classes
    MustFail { kind: u8, tag: bool, esc: bool, hash: [u8; 32], n: u8 },
}

/// every ASCII character (0..=127), then multi-byte and special characters
const MUT_EXTRA: &[char] = &['\u{e9}', '\u{65e5}', '\u{1F600}', '\u{FFFD}', '\u{80}', '\u{ff10}', '\u{ff21}', '\u{2028}', '\u{feff}'];
const MUT_ALPHABET_LEN: usize = 128 + MUT_EXTRA.len();
fn mut_char(i: usize) -> char {
    let i = i % MUT_ALPHABET_LEN;
    if i < 128 {
        i as u8 as char
    } else {
        MUT_EXTRA[i - 128]
    }
}

pub fn base_line(i: u8) -> String {
    let h = "0123456789abcdef0123456789abcdeffedcba9876543210fedcba9876543210";
    match i % 8 {
        0 => format!("{}  dir/file.txt", h),
        1 => format!("BLAKE3 (dir/file.txt) = {}", h),
        2 => format!("\\{}  a\\\\b\\nc", h),
        3 => format!("\\BLAKE3 (a\\\\b\\rc) = {}", h),
        4 => format!("{}  two  spaces", h),
        5 => format!("BLAKE3 (x) = y) = {}", h),
        6 => format!("{}  BLAKE3 (odd) = name\r\n", h),
        _ => format!("BLAKE3 (\u{e9}\u{65e5} z) = {}\n", h),
    }
}

pub fn mutant(base: u8, pos: u16, kind: u8, ch: u8) -> String {
    let b: Vec<char> = base_line(base).chars().collect();
    let pos = pos as usize % (b.len() + 1);
    let c = mut_char(ch as usize);
    let mut v = b.clone();
    match kind % 3 {
        0 => {
            if pos < v.len() {
                v[pos] = c;
            } else {
                v.push(c);
            }
        }
        1 => v.insert(pos, c),
        _ => {
            if pos < v.len() {
                v.remove(pos);
            }
        }
    }
    v.into_iter().collect()
}

fn must_fail_line(kind: u8, tag: bool, esc: bool, hash: &[u8; 32], n: u8) -> (String, &'static str) {
    let good = hex(hash);
    let (hash_field, path, why): (String, String, &'static str) = match kind % 12 {
        0 => return (["", "\n", "\r\n", "\r", "\n\n"][n as usize % 5].to_string(), "empty line"),
        1 => (good[..(n as usize % 64)].to_string(), "name".into(), "hash field too short"),
        2 => (format!("{}{}", good, &good[..1 + n as usize % 8]), "name".into(), "hash field too long"),
        3 => {
            let mut h: Vec<char> = good.chars().collect();
            // one or two positions get an ASCII character that is not a lower-case hex digit (position and character vary independently)
            let non_hex = |b: u8| -> char {
                let all: Vec<char> = (0u8..128).map(|c| c as char).filter(|c| !matches!(c, '0'..='9' | 'a'..='f')).collect();
                all[b as usize % all.len()]
            };
            h[n as usize % 64] = non_hex(hash[3]);
            if hash[1] % 2 == 1 {
                h[hash[2] as usize % 64] = non_hex(hash[4]);
            }
            (h.into_iter().collect(), "name".into(), "non-hex digit in hash field")
        }
        4 => {
            // upper-case hex digit: make sure one letter exists
            let mut h: Vec<char> = good.chars().collect();
            h[n as usize % 64] = 'A';
            (h.into_iter().collect(), "name".into(), "upper-case digit in hash field")
        }
        5 => {
            // non-ASCII in the hash field, same number of characters
            let mut h: Vec<char> = good.chars().collect();
            h[n as usize % 64] = ['\u{e9}', '\u{65e5}', '\u{1F600}', '\u{ff10}'][n as usize % 4];
            (h.into_iter().collect(), "name".into(), "non-ASCII character in hash field (same char count)")
        }
        6 => {
            // non-ASCII in the hash field, same number of BYTES (62 digits + one 2-byte char)
            let i = n as usize % 63;
            let mut s = String::new();
            s.push_str(&good[..i]);
            s.push('\u{e9}');
            s.push_str(&good[i..62]);
            (s, "name".into(), "non-ASCII character in hash field (64 bytes)")
        }
        7 => (good.clone(), String::new(), "empty path"),
        8 => (good.clone(), format!("na{}me", '\0'), "NUL in path"),
        9 => (good.clone(), format!("na{}me", '\u{FFFD}'), "U+FFFD in path"),
        10 => {
            let bad = ["a\\tb", "a\\xb", "a\\", "\\", "a\\0", "\\\\\\", "a\\Nb", "a\\ b"][n as usize % 8];
            let l = if tag { format!("\\BLAKE3 ({}) = {}", bad, good) } else { format!("\\{}  {}", good, bad) };
            return (l, "invalid or dangling escape in an escaped line");
        }
        _ => return (format!("{} {}", good, "name"), "single space between hash and name"),
    };
    let mut l = String::new();
    if esc {
        l.push('\\');
    }
    if tag {
        l.push_str(&format!("BLAKE3 ({}) = {}", path, hash_field));
    } else {
        l.push_str(&format!("{}  {}", hash_field, path));
    }
    (l, why)
}

pub fn check_text(c: &TextCase) -> Result<(), String> {
    let (line, must_fail): (String, Option<&'static str>) = match c {
        TextCase::Raw(s) => (s.clone(), None),
        TextCase::Mutant { base, pos, kind, ch } => (mutant(*base, *pos, *kind, *ch), None),
        TextCase::MustFail { kind, tag, esc, hash, n } => {
            let (l, why) = must_fail_line(*kind, *tag, *esc, hash, *n);
            (l, Some(why))
        }
    };
    // (1) never panics: a panic is caught by the runner and reported as a failure of this case
    let r = probe::parse_check_line(&line);
    match &r {
        Ok(p) => {
            if let Some(why) = must_fail {
                return Err(format!("line {:?} ({}) is accepted as path {:?} hash {}", line, why, p.file_path, hex(&p.expected_hash)));
            }
            let body = line.trim_end_matches(['\r', '\n']);
            ensure!(!body.is_empty(), "an empty line is accepted");
            ensure!(!line.contains('\0') && !line.contains('\u{FFFD}'), "a line containing NUL or U+FFFD is accepted: {:?}", line);
            certificate(&line, p)?;
        }
        Err(_) => {}
    }
    Ok(())
}

pub fn classify_text(c: &TextCase) -> Classes {
    match c {
        TextCase::Raw(s) => {
            let ok = probe_ok(s);
            Classes::new(ok || s.contains("  ") || s.contains("BLAKE3 (")).tag(true, "kind=raw-text").tag(ok, "accepted")
        }
        TextCase::Mutant { base, pos, kind, ch } => {
            let m = mutant(*base, *pos, *kind, *ch);
            let ok = probe_ok(&m);
            Classes::new(!ok).tag(true, "kind=single-char-mutant").tag(ok, "mutant-still-accepted").tag(!ok, "mutant-rejected").tag(!m.is_ascii(), "mutant-non-ascii")
        }
        TextCase::MustFail { kind, .. } => Classes::new(true).tag(true, "kind=always-error-class").tag(*kind % 12 == 6, "class=non-ascii-hash-64-bytes"),
    }
}

fn probe_ok(s: &str) -> bool {
    crate::runner::catch(|| probe::parse_check_line(s).is_ok()).unwrap_or(false)
}

fn text_strategy(_tier: Tier) -> BoxedStrategy<TextCase> {
    let hexs = "[0-9a-f]{64}";
    prop_oneof![
        2 => "\\PC{0,200}".prop_map(TextCase::Raw),
        2 => ".{0,100}".prop_map(TextCase::Raw),
        2 => (hexs, "[ -~\\\\\u{e9}\u{65e5}\r\n]{0,30}").prop_map(|(h, p)| TextCase::Raw(format!("{}  {}", h, p))),
        2 => (hexs, "[ -~\\\\\u{e9}\u{65e5}\r\n]{0,30}").prop_map(|(h, p)| TextCase::Raw(format!("BLAKE3 ({}) = {}", p, h))),
        2 => (hexs, "[a-c\\\\nr ]{0,12}", any::<bool>()).prop_map(|(h, p, t)| TextCase::Raw(if t { format!("\\BLAKE3 ({}) = {}", p, h) } else { format!("\\{}  {}", h, p) })),
        1 => ("[0-9a-fA-F\u{e9} ]{60,68}", "[a-z ]{0,8}").prop_map(|(h, p)| TextCase::Raw(format!("{}  {}", h, p))),
        6 => (0u8..8, any::<u16>(), 0u8..3, any::<u8>()).prop_map(|(base, pos, kind, ch)| TextCase::Mutant { base, pos, kind, ch }),
        4 => (0u8..12, any::<bool>(), any::<bool>(), any::<[u8; 32]>(), any::<u8>()).prop_map(|(kind, tag, esc, hash, n)| TextCase::MustFail { kind, tag, esc, hash, n }),
    ]
    .boxed()
}

fn mutant_items(tier: Tier) -> Box<dyn Iterator<Item = TextCase>> {
    let bases = tier.pick(4u8, 8u8);
    let mut v = Vec::new();
    for base in 0..bases {
        let n = base_line(base).chars().count() as u16;
        for pos in 0..=n {
            for kind in 0..3u8 {
                if kind == 2 {
                    v.push(TextCase::Mutant { base, pos, kind, ch: 0 });
                    continue;
                }
                for ch in 0..MUT_ALPHABET_LEN as u8 {
                    v.push(TextCase::Mutant { base, pos, kind, ch });
                }
            }
        }
    }
    Box::new(v.into_iter())
}

pub fn subs() -> Vec<Box<dyn DynSub>> {
    vec![
        Box::new(PropSub::<RtCase> {
            name: "round-trip",
            rule: "proptest: path = 1-14 symbols from a hostile alphabet (letters, ' ', two spaces, ') = ', 'BLAKE3 (', backslash, LF, CR, literal backslash-n, tab, 2-4 byte UTF-8, U+FFFD, NUL, lone 0x80/0xFF, truncated sequence, ...) x {plain, --tag} x {no terminator, LF, CRLF}; the line is built by b3sum's own filepath_to_string with the printer's format strings and fed to b3sum's own parse_check_line; oracle: the printed text is one physical line in the documented escaped form for EVERY path (also invalid UTF-8); representable path (valid UTF-8, no NUL/U+FFFD) => Ok with exactly that path and hash, otherwise Err; an Ok never yields a different path; non-trivial = separator look-alike, escape or non-ASCII in the path",
            cases: (200_000, 2_000_000),
            strategy: rt_strategy,
            classify: classify_roundtrip,
            check: check_roundtrip,
            known: None,
            crumb: false,
        }),
        Box::new(PropSub::<TextCase> {
            name: "arbitrary-text",
            rule: "proptest: arbitrary Unicode strings, near-valid lines over hostile path alphabets, single-character mutants of 8 valid base lines, and constructed members of the always-error classes (empty line; hash field too short/long/non-hex/upper-case/non-ASCII with equal char count or equal byte count; empty path; NUL; U+FFFD; invalid/dangling escape; single space); oracle: never panics; an Ok result is a certificate (line is literally `<hex of returned hash>  F` or `BLAKE3 (F) = <hex>` after trimming CR/LF and an optional leading backslash, returned path = F or its documented unescaping, non-empty, no NUL/U+FFFD); lines with NUL/U+FFFD or empty lines are never accepted; constructed always-error lines give Err",
            cases: (200_000, 2_000_000),
            strategy: text_strategy,
            classify: classify_text,
            check: check_text,
            known: None,
            crumb: false,
        }),
        Box::new(EnumSub::<TextCase> {
            name: "mutants-enumerated",
            rule: "enumeration: every single-character replacement and insertion (all 128 ASCII characters plus 9 multi-byte/special ones incl. U+FFFD, full-width digits, BOM) and every deletion at every position of 4 (quick) / 8 (thorough) valid base lines (plain, tag, escaped plain, escaped tag, double-space path, ') = ' in path, CRLF, non-ASCII); same oracle; non-trivial = mutant whose verdict changes to rejected",
            items: mutant_items,
            classify: classify_text,
            check: check_text,
            exhaustive: true,
            known: None,
            crumb: false,
        }),
    ]
}
