//! C08 — multithreaded hashing is deterministic under every schedule.
#![cfg(all(feature = "full", blake3_team_blake3_verif))]

use crate::cjoin::{self, Script};
use crate::ensure;
use crate::gen::{self, Content, ModeC};
use crate::levels::{self, Level};
use crate::runner::{eq_bytes, Classes, DynSub, PropSub, Tier};
use proptest::prelude::*;
use serde::{Deserialize, Serialize};
use std::sync::atomic::{AtomicU64, AtomicU8, Ordering};

#[derive(Clone, Debug, Serialize, Deserialize, PartialEq, Eq)]
pub enum How {
    /// hook 2: update_with_join::<ScriptedJoin> with this schedule script
    Scripted { seed: u64, mode: u8 },
    /// update_rayon inside a pool of this many threads
    Rayon { threads: u8 },
    /// update_mmap_rayon inside a pool of this many threads
    MmapRayon { threads: u8 },
}

#[derive(Clone, Debug, Serialize, Deserialize)]
pub struct Case {
    pub mode: ModeC,
    pub level: Level,
    pub prefix_len: u32,
    pub len: u32,
    pub content: Content,
    pub how: How,
    pub suffix_len: u16,
}

// decision function handed to the crate's scripted Join (a plain fn: reads the script from statics)
static S_SEED: AtomicU64 = AtomicU64::new(0);
static S_MODE: AtomicU8 = AtomicU8::new(0);
static N_SPLITS: AtomicU64 = AtomicU64::new(0);
static N_NONLEFT: AtomicU64 = AtomicU64::new(0);
static N_CONC: AtomicU64 = AtomicU64::new(0);

fn decide(path: u64, depth: u32) -> u8 {
    let s = Script { seed: S_SEED.load(Ordering::Relaxed), mode: S_MODE.load(Ordering::Relaxed) };
    N_SPLITS.fetch_add(1, Ordering::Relaxed);
    match s.decide(path, depth) {
        cjoin::Order::LeftFirst => 0,
        cjoin::Order::RightFirst => {
            N_NONLEFT.fetch_add(1, Ordering::Relaxed);
            1
        }
        cjoin::Order::Concurrent => {
            N_NONLEFT.fetch_add(1, Ordering::Relaxed);
            N_CONC.fetch_add(1, Ordering::Relaxed);
            2
        }
    }
}

fn pool(threads: u8) -> std::sync::Arc<rayon_core::ThreadPool> {
    use std::collections::HashMap;
    use std::sync::{Arc, Mutex, OnceLock};
    static POOLS: OnceLock<Mutex<HashMap<u8, Arc<rayon_core::ThreadPool>>>> = OnceLock::new();
    let m = POOLS.get_or_init(|| Mutex::new(HashMap::new()));
    let mut g = m.lock().unwrap();
    g.entry(threads)
        .or_insert_with(|| Arc::new(rayon_core::ThreadPoolBuilder::new().num_threads(threads as usize).build().expect("rayon pool")))
        .clone()
}

fn same(what: &str, a: &blake3::Hasher, b: &blake3::Hasher, model: &b3spec::Incr) -> Result<(), String> {
    ensure!(a.count() == b.count(), "{}: count() {} (multithreaded) vs {} (serial)", what, a.count(), b.count());
    ensure!(a.count() == model.len(), "{}: count() {} but {} bytes absorbed", what, a.count(), model.len());
    let (mut xa, mut xb) = (vec![0u8; 200], vec![0u8; 200]);
    a.finalize_xof().fill(&mut xa);
    b.finalize_xof().fill(&mut xb);
    eq_bytes(&format!("{}: multithreaded vs serial extended output", what), &xa, &xb)?;
    eq_bytes(&format!("{}: multithreaded output vs spec", what), &xa, &model.output().xof(0, 200))?;
    ensure!(a.finalize() == b.finalize(), "{}: finalize() differs", what);
    Ok(())
}

pub fn check(c: &Case) -> Result<(), String> {
    levels::with_level(c.level, || {
        let all = c.content.expand(c.prefix_len as usize + c.len as usize + c.suffix_len as usize);
        let (prefix, rest) = all.split_at(c.prefix_len as usize);
        let (data, suffix) = rest.split_at(c.len as usize);
        let mut par = c.mode.hasher();
        let mut ser = c.mode.hasher();
        let mut model = b3spec::Incr::new(c.mode.kf());
        par.update(prefix);
        ser.update(prefix);
        model.push(prefix);
        match &c.how {
            How::Scripted { seed, mode } => {
                S_SEED.store(*seed, Ordering::Relaxed);
                S_MODE.store(*mode, Ordering::Relaxed);
                blake3::verif_set_join_decider(Some(decide));
                par.verif_update_scripted(data);
                blake3::verif_set_join_decider(None);
            }
            How::Rayon { threads } => {
                let p = pool(core::cmp::max(1, *threads));
                p.install(|| {
                    par.update_rayon(data);
                });
            }
            How::MmapRayon { threads } if data.len() % 4 == 3 && data.len() <= (4 << 20) => {
                // one time in four the path is a named pipe fed in three pieces (fallback to reads inside the pool)
                let third = (data.len() / 3) as u32;
                let p = pool(core::cmp::max(1, *threads));
                let par_ref = &mut par;
                let r = crate::props::c11::through_fifo(data, &[third, third], 150, |path| p.install(|| par_ref.update_mmap_rayon(path).map(|_| ())))?;
                r.map_err(|e| format!("update_mmap_rayon on a named pipe failed: {}", e))?;
            }
            How::MmapRayon { threads } => {
                let f = crate::hist::ScratchFile::with_bytes("c08", data).map_err(|e| format!("ENGINE scratch file: {}", e))?;
                let p = pool(core::cmp::max(1, *threads));
                let r = p.install(|| par.update_mmap_rayon(&f.path).map(|_| ()));
                r.map_err(|e| format!("update_mmap_rayon failed: {}", e))?;
            }
        }
        ser.update(data);
        model.push(data);
        same("after the multithreaded update", &par, &ser, &model)?;
        par.update(suffix);
        ser.update(suffix);
        model.push(suffix);
        same("after a common suffix", &par, &ser, &model)
    })
    .map_err(|e| format!("[level {:?}] {}", c.level, e))
}

fn est_splits(c: &Case) -> u32 {
    // splits happen while a subtree has more than simd_degree chunks
    let d = c.level.degree() as u32;
    let chunks = (c.len + 1023) / 1024;
    if chunks <= d {
        0
    } else {
        (chunks + d - 1) / d - 1
    }
}

pub fn classify(c: &Case) -> Classes {
    let splits = est_splits(c);
    let scripted_nonleft = matches!(&c.how, How::Scripted { mode, .. } if *mode != 0);
    let pool_gt1 = matches!(&c.how, How::Rayon { threads } | How::MmapRayon { threads } if *threads > 1);
    Classes::new(splits >= 2 && (scripted_nonleft || pool_gt1))
        .tag(true, levels::cfg_tag(c.level))
        .tag(matches!(c.how, How::Scripted { mode: 0, .. }), "schedule=all-left-first")
        .tag(matches!(c.how, How::Scripted { mode: 1, .. }), "schedule=all-right-first")
        .tag(matches!(c.how, How::Scripted { mode: 2, .. }), "schedule=all-concurrent")
        .tag(matches!(c.how, How::Scripted { mode: 3.., .. }), "schedule=mixed-by-path")
        .tag(matches!(c.how, How::Rayon { .. }), "update_rayon")
        .tag(matches!(c.how, How::MmapRayon { .. }), "update_mmap_rayon")
        .tag(c.prefix_len % 1024 != 0, "prefix-partial-chunk")
        .tag(c.prefix_len > 0 && (c.prefix_len / 1024) % 2 == 1, "prefix-odd-chunks")
        .tag(splits >= 16, ">=16-splits")
        .tag(splits == 0, "no-split")
}

fn strategy(tier: Tier) -> BoxedStrategy<Case> {
    let max = tier.pick(256 * 1024usize, 4096 * 1024usize);
    let av = levels::available().clone();
    let how = prop_oneof![
        6 => (any::<u64>(), prop_oneof![1 => Just(0u8), 2 => Just(1u8), 2 => Just(2u8), 4 => Just(3u8)]).prop_map(|(seed, mode)| How::Scripted { seed, mode }),
        2 => (1u8..=16).prop_map(|threads| How::Rayon { threads }),
        1 => (1u8..=16).prop_map(|threads| How::MmapRayon { threads }),
    ];
    (
        gen::mode4(),
        (0usize..av.len()).prop_map(move |i| av[i]),
        prop_oneof![3 => Just(0u32), 2 => 1u32..=4096, 2 => (1u32..=9).prop_map(|k| k * 1024), 1 => 0u32..=40_000],
        prop_oneof![3 => gen::len_lattice(max), 2 => (2usize..=64).prop_map(|k| k * 1024 + 1), 1 => (17usize..=260).prop_map(|k| k * 1024)].prop_map(|l| l as u32),
        gen::content(),
        how,
        0u16..=3000,
    )
        .prop_map(|(mode, level, prefix_len, len, content, how, suffix_len)| Case { mode, level, prefix_len, len, content, how, suffix_len })
        .boxed()
}

/// Long inputs through the real rayon entry points in pools of every size 1..=16 (work distribution that depends on
/// the pool size or on megabyte-scale input shows only here).
fn large_strategy(tier: Tier) -> BoxedStrategy<Case> {
    let max_mib = tier.pick(24u32, 64u32);
    let av = levels::available().clone();
    let threads = prop_oneof![2 => 1u8..=16, 3 => crate::gen::select(vec![3u8, 5, 6, 7, 9, 11, 12, 13])];
    let how = (threads, any::<bool>()).prop_map(|(threads, mm)| if mm { How::MmapRayon { threads } } else { How::Rayon { threads } });
    let len = prop_oneof![
        2 => (1u32..=max_mib, -2i32..=2).prop_map(|(m, d)| ((m << 20) as i64 + d as i64 * 1024 + (d as i64 % 2)) as u32),
        2 => (1u32 << 20)..=(max_mib << 20),
    ];
    (
        gen::mode4(),
        prop_oneof![4 => Just(*av.last().unwrap_or(&Level::Portable)), 1 => (0usize..av.len().max(1)).prop_map(move |i| *av.get(i).unwrap_or(&Level::Portable))],
        prop_oneof![3 => Just(0u32), 2 => 1u32..=4096, 2 => (1u32..=9).prop_map(|k| k * 1024), 1 => 0u32..=40_000],
        len,
        gen::content(),
        how,
        0u16..=3000,
    )
        .prop_map(|(mode, level, prefix_len, len, content, how, suffix_len)| Case { mode, level, prefix_len, len, content, how, suffix_len })
        .boxed()
}

// ---------------------------------------------------------------------------
// C library: the parallel-join seam of the BLAKE3_USE_TBB build, scripted by the harness
// ---------------------------------------------------------------------------
#[cfg(feature = "cshim")]
mod c_side {
    use super::*;
    use crate::cshim::{self, CHasher};
    use crate::props::c06::InitC;
    use std::os::raw::c_void;

    #[derive(Clone, Debug, Serialize, Deserialize)]
    pub struct CCase {
        pub init: InitC,
        pub mask: Level,
        pub prefix_len: u32,
        pub len: u32,
        pub content: Content,
        pub seed: u64,
        pub mode: u8,
        pub suffix_len: u16,
    }

    pub fn check_c(c: &CCase) -> Result<(), String> {
        if !c.mask.cpu_has() {
            return Ok(());
        }
        let api = cshim::api_tbb();
        unsafe { *api.features = cshim::mask_for(c.mask) };
        let all = c.content.expand(c.prefix_len as usize + c.len as usize + c.suffix_len as usize);
        let (prefix, rest) = all.split_at(c.prefix_len as usize);
        let (data, suffix) = rest.split_at(c.len as usize);
        let mut par = Box::new(CHasher::zeroed());
        let mut ser = Box::new(CHasher::zeroed());
        let mut model = b3spec::Incr::new(c.init.kf());
        let out = |h: &CHasher| -> Vec<u8> {
            let mut o = vec![0u8; 200];
            unsafe { (api.finalize)(h, o.as_mut_ptr(), 200) };
            o
        };
        unsafe {
            c.init.init(&api, &mut *par);
            c.init.init(&api, &mut *ser);
            (api.update)(&mut *par, prefix.as_ptr() as *const c_void, prefix.len());
            (api.update)(&mut *ser, prefix.as_ptr() as *const c_void, prefix.len());
            model.push(prefix);
            if c.mode == 4 && cfg!(feature = "full") {
                // real work stealing: the seam hands every join to rayon inside a pool of 2..=8 threads
                #[cfg(feature = "full")]
                {
                    let p = super::pool(2 + (c.seed % 7) as u8);
                    let hp = crate::guard::SendAddr(&mut *par as *mut CHasher as usize);
                    let dp = crate::guard::SendAddr(data.as_ptr() as usize);
                    let n = data.len();
                    cjoin::WORK_STEALING.store(true, Ordering::SeqCst);
                    p.install(move || {
                        let (hp, dp) = (hp, dp);
                        cshim::ct_blake3_hasher_update_tbb(hp.0 as *mut CHasher, dp.0 as *const c_void, n)
                    });
                    cjoin::WORK_STEALING.store(false, Ordering::SeqCst);
                }
            } else {
                cjoin::install(Some(Script { seed: c.seed, mode: c.mode % 4 }));
                cshim::ct_blake3_hasher_update_tbb(&mut *par, data.as_ptr() as *const c_void, data.len());
                cjoin::install(None);
            }
            (api.update)(&mut *ser, data.as_ptr() as *const c_void, data.len());
            model.push(data);
        }
        let (a, b) = (out(&par), out(&ser));
        eq_bytes("C: update_tbb (scripted join) vs serial update", &a, &b)?;
        eq_bytes("C: update_tbb output vs spec", &a, &model.output().xof(0, 200))?;
        unsafe {
            (api.update)(&mut *par, suffix.as_ptr() as *const c_void, suffix.len());
            (api.update)(&mut *ser, suffix.as_ptr() as *const c_void, suffix.len());
        }
        model.push(suffix);
        let (a, b) = (out(&par), out(&ser));
        eq_bytes("C: after a common suffix, update_tbb vs serial", &a, &b)?;
        eq_bytes("C: after a common suffix vs spec", &a, &model.output().xof(0, 200))?;
        unsafe { *api.features = cshim::F_UNDEFINED };
        Ok(())
    }

    pub fn classify_c(c: &CCase) -> Classes {
        let d = c.mask.degree() as u32;
        let chunks = (c.len + 1023) / 1024;
        let splits = if chunks <= d { 0 } else { (chunks + d - 1) / d - 1 };
        Classes::new(splits >= 2 && c.mode != 0)
            .tag(true, c.init.tag())
            .tag(c.mode == 1, "schedule=all-right-first")
            .tag(c.mode == 2, "schedule=all-concurrent")
            .tag(c.mode == 3, "schedule=mixed-by-path").tag(c.mode == 4, "schedule=rayon-work-stealing")
            .tag(c.mode == 0, "schedule=all-left-first")
            .tag(splits >= 16, ">=16-splits")
            .tag(c.mask == Level::Portable, "mask=portable")
            .tag(c.mask == Level::Avx512, "mask=AVX-512")
    }

    pub fn strategy_c(tier: Tier) -> BoxedStrategy<CCase> {
        let max = tier.pick(384 * 1024usize, 4096 * 1024usize);
        (
            crate::props::c06::init_strategy(),
            crate::props::c06::mask_strategy(),
            prop_oneof![3 => Just(0u32), 2 => 1u32..=4096, 2 => (1u32..=9).prop_map(|k| k * 1024)],
            prop_oneof![3 => gen::len_lattice(max), 2 => (2usize..=64).prop_map(|k| k * 1024 + 1)].prop_map(|l| l as u32),
            gen::content(),
            any::<u64>(),
            prop_oneof![1 => Just(0u8), 2 => Just(1u8), 2 => Just(2u8), 4 => Just(3u8), 4 => Just(4u8)],
            0u16..=3000,
        )
            .prop_map(|(init, mask, prefix_len, len, content, seed, mode, suffix_len)| CCase { init, mask, prefix_len, len, content, seed, mode, suffix_len })
            .boxed()
    }
}

pub fn subs() -> Vec<Box<dyn DynSub>> {
    let mut v: Vec<Box<dyn DynSub>> = vec![Box::new(PropSub::<Case> {
        name: "rust-schedules",
        rule: "proptest: (mode, forced SIMD level, prefix already absorbed incl. odd chunk counts and partial chunks, input from the boundary lattice up to 256 KiB quick / 4 MiB thorough, common suffix) x schedule: scripted Join (hook 2) with every split of the recursion run left-first / right-first / on two concurrent threads as a pure function of (seed, split-tree path), or the real update_rayon / update_mmap_rayon inside rayon pools of 1..=16 threads; oracle: count(), finalize(), 200 XOF bytes equal a serial update() twin and the spec, again after a common suffix; non-trivial = >=2 splits with a non-left-first script or a pool of >1 threads",
        cases: (8_000, 120_000),
        strategy,
        classify,
        check,
        known: None,
        crumb: false,
    })];
    v.push(Box::new(PropSub::<Case> {
        name: "rayon-large",
        rule: "proptest: inputs of 1-24 MiB (quick) / 64 MiB (thorough), at whole MiB +-2 KiB and uniform, after prefixes as above, through update_rayon / update_mmap_rayon inside pools of 1..=16 threads with the sizes that are not powers of two over-weighted; same oracle (serial twin and spec, again after a suffix)",
        cases: (64, 1_200),
        strategy: large_strategy,
        classify,
        check,
        known: None,
        crumb: false,
    }));
    #[cfg(feature = "cshim")]
    v.push(Box::new(PropSub::<c_side::CCase> {
        name: "c-join-seam",
        rule: "proptest: the C library built with -DBLAKE3_USE_TBB; blake3_hasher_update_tbb runs every blake3_compress_subtree_wide_join_tbb call through a harness-implemented seam (rayon's work-stealing scheduler in pools of 2-8 threads, where a waiting worker runs other pending halves on its own stack, or scripted left-first / right-first / two real threads, scripted by (seed, path)) for every initialiser and CPU-feature mask; oracle: same output as blake3_hasher_update on a twin and as the spec, again after a common suffix",
        cases: (5_000, 80_000),
        strategy: c_side::strategy_c,
        classify: c_side::classify_c,
        check: c_side::check_c,
        known: None,
        crumb: true,
    }));
    v
}
