//! C11 — reader, mmap and Write adapters hash exactly the bytes of their source.
#![cfg(feature = "full")]

use crate::ensure;
use crate::gen::{self, Content, ModeC};
use crate::hist::ScratchFile;
use crate::runner::{eq_bytes, Classes, DynSub, EnumSub, PropSub, Tier};
use proptest::prelude::*;
use serde::{Deserialize, Serialize};
use std::io::{self, ErrorKind, Read, Write};

#[derive(Clone, Debug, Serialize, Deserialize, PartialEq, Eq)]
pub enum Ev {
    /// a read of 1 + (x mod min(buffer, remaining)) bytes
    Short(u32),
    /// fill the caller's whole buffer (or all that is left)
    Full,
    Interrupted,
    /// a hard error of this kind (index into KINDS)
    Fail(u8),
    /// Ok(0) before the data is exhausted
    EarlyEof,
}

/// every stable std::io::ErrorKind except Interrupted (which is retried, not returned)
const KINDS: [ErrorKind; 39] = [
    ErrorKind::Other,
    ErrorKind::UnexpectedEof,
    ErrorKind::WouldBlock,
    ErrorKind::TimedOut,
    ErrorKind::PermissionDenied,
    ErrorKind::InvalidData,
    ErrorKind::NotFound,
    ErrorKind::ConnectionRefused,
    ErrorKind::ConnectionReset,
    ErrorKind::HostUnreachable,
    ErrorKind::NetworkUnreachable,
    ErrorKind::ConnectionAborted,
    ErrorKind::NotConnected,
    ErrorKind::AddrInUse,
    ErrorKind::AddrNotAvailable,
    ErrorKind::NetworkDown,
    ErrorKind::BrokenPipe,
    ErrorKind::AlreadyExists,
    ErrorKind::NotADirectory,
    ErrorKind::IsADirectory,
    ErrorKind::DirectoryNotEmpty,
    ErrorKind::ReadOnlyFilesystem,
    ErrorKind::StaleNetworkFileHandle,
    ErrorKind::InvalidInput,
    ErrorKind::WriteZero,
    ErrorKind::StorageFull,
    ErrorKind::NotSeekable,
    ErrorKind::QuotaExceeded,
    ErrorKind::FileTooLarge,
    ErrorKind::ResourceBusy,
    ErrorKind::ExecutableFileBusy,
    ErrorKind::Deadlock,
    ErrorKind::CrossesDevices,
    ErrorKind::TooManyLinks,
    ErrorKind::InvalidFilename,
    ErrorKind::ArgumentListTooLong,
    ErrorKind::Unsupported,
    ErrorKind::OutOfMemory,
    ErrorKind::Other,
];

#[derive(Clone, Debug, Serialize, Deserialize)]
pub struct RCase {
    pub mode: ModeC,
    pub prefix_len: u32,
    pub len: u32,
    pub content: Content,
    pub script: Vec<Ev>,
    /// bytes fed with update() after update_reader returned (also after an error)
    pub suffix_len: u16,
}

struct Scripted<'a> {
    data: &'a [u8],
    pos: usize,
    script: &'a [Ev],
    next: usize,
    calls: u32,
    interrupted_after_data: bool,
    ended: Option<Result<(), ErrorKind>>,
    reads_after_end: u32,
    max_buf: usize,
}

impl<'a> Read for Scripted<'a> {
    fn read(&mut self, buf: &mut [u8]) -> io::Result<usize> {
        self.calls += 1;
        self.max_buf = self.max_buf.max(buf.len());
        if self.ended.is_some() {
            self.reads_after_end += 1;
        }
        let left = self.data.len() - self.pos;
        let ev = if self.next < self.script.len() {
            let e = self.script[self.next].clone();
            self.next += 1;
            e
        } else {
            Ev::Full
        };
        let cap = core::cmp::min(buf.len(), left);
        match ev {
            Ev::Interrupted => {
                if self.pos > 0 {
                    self.interrupted_after_data = true;
                }
                Err(io::Error::new(ErrorKind::Interrupted, "scripted EINTR"))
            }
            Ev::Fail(k) => {
                let kind = KINDS[k as usize % KINDS.len()];
                self.ended = Some(Err(kind));
                Err(io::Error::new(kind, "scripted failure"))
            }
            Ev::EarlyEof => {
                self.ended = Some(Ok(()));
                Ok(0)
            }
            Ev::Short(_) | Ev::Full if cap == 0 => {
                self.ended = Some(Ok(()));
                Ok(0)
            }
            Ev::Short(x) => {
                let n = 1 + (x as usize) % cap;
                buf[..n].copy_from_slice(&self.data[self.pos..self.pos + n]);
                self.pos += n;
                Ok(n)
            }
            Ev::Full => {
                buf[..cap].copy_from_slice(&self.data[self.pos..self.pos + cap]);
                self.pos += cap;
                Ok(cap)
            }
        }
    }
}

pub fn check_reader(c: &RCase) -> Result<(), String> {
    let all = c.content.expand(c.prefix_len as usize + c.len as usize + c.suffix_len as usize);
    let (prefix, rest) = all.split_at(c.prefix_len as usize);
    let (data, suffix) = rest.split_at(c.len as usize);
    let mut h = c.mode.hasher();
    let mut model = b3spec::Incr::new(c.mode.kf());
    h.update(prefix);
    model.push(prefix);
    let mut r = Scripted { data, pos: 0, script: &c.script, next: 0, calls: 0, interrupted_after_data: false, ended: None, reads_after_end: 0, max_buf: 0 };
    let res = h.update_reader(&mut r).map(|_| ());
    // what the reader did decides what must have happened
    match (&r.ended, &res) {
        (Some(Ok(())), Ok(())) => {}
        (Some(Err(kind)), Err(e)) => ensure!(e.kind() == *kind, "update_reader returned error kind {:?} but the reader failed with {:?}", e.kind(), kind),
        (Some(Err(kind)), Ok(())) => return Err(format!("the reader failed with {:?} after {} bytes but update_reader returned Ok", kind, r.pos)),
        (Some(Ok(())), Err(e)) => return Err(format!("update_reader returned an error ({:?}) although the reader only reported end of file", e.kind())),
        (None, Ok(())) => return Err(format!("update_reader returned Ok before the reader reported end of file ({} of {} bytes read)", r.pos, data.len())),
        (None, Err(e)) => return Err(format!("update_reader surfaced an error the reader never produced as final: {:?} (Interrupted must be retried)", e.kind())),
    }
    ensure!(r.reads_after_end == 0, "update_reader kept reading after the reader had reported {:?}", r.ended);
    model.push(&data[..r.pos]);
    ensure!(h.count() == model.len(), "count() = {} but prefix {} + {} bytes yielded by the reader", h.count(), prefix.len(), r.pos);
    eq_bytes(&format!("hash after update_reader ({} bytes yielded, reader ended with {:?})", r.pos, r.ended), h.finalize().as_bytes(), &model.output().hash())?;
    // the hasher stays usable and exact afterwards
    h.update(suffix);
    model.push(suffix);
    eq_bytes("hash after continuing with update()", h.finalize().as_bytes(), &model.output().hash())?;
    Ok(())
}

pub fn classify_reader(c: &RCase) -> Classes {
    let short = c.script.iter().any(|e| matches!(e, Ev::Short(_)));
    // replay the script on lengths only
    let mut pos = 0usize;
    let mut intr_after = false;
    let mut hard = false;
    let mut early = false;
    let buf = 65536usize;
    for e in &c.script {
        let left = c.len as usize - pos;
        let cap = core::cmp::min(buf, left);
        match e {
            Ev::Interrupted => intr_after |= pos > 0,
            Ev::Fail(_) => {
                hard = true;
                break;
            }
            Ev::EarlyEof => {
                early = left > 0;
                break;
            }
            Ev::Short(x) => {
                if cap == 0 {
                    break;
                }
                pos += 1 + (*x as usize) % cap;
            }
            Ev::Full => {
                if cap == 0 {
                    break;
                }
                pos += cap;
            }
        }
    }
    Classes::new(short && (intr_after || hard))
        .tag(true, c.mode.tag())
        .tag(short, "short-reads")
        .tag(intr_after, "interrupted-after-data")
        .tag(hard, "hard-error")
        .tag(early, "early-eof")
        .tag(c.prefix_len > 0, "prefix-in-hasher")
        .tag(c.len as usize > 65536, "len>internal-buffer")
        .tag(c.len == 0, "empty-source")
}

fn ev_strategy() -> BoxedStrategy<Ev> {
    prop_oneof![
        6 => prop_oneof![0u32..70, 0u32..5000, any::<u32>()].prop_map(Ev::Short),
        3 => Just(Ev::Full),
        3 => Just(Ev::Interrupted),
        1 => (0u8..39).prop_map(Ev::Fail),
        1 => Just(Ev::EarlyEof),
    ]
    .boxed()
}

fn reader_strategy(tier: Tier) -> BoxedStrategy<RCase> {
    let max = tier.pick(300 * 1024usize, 4 * 1024 * 1024usize);
    (
        gen::mode4(),
        prop_oneof![2 => Just(0u32), 2 => 0u32..=5000, 1 => crate::gen::select(vec![1u32, 63, 64, 1023, 1024, 1025, 3072])],
        // mostly the lattice up to `max`; one in ten a long stream (1-5 MiB: more than any internal buffer)
        prop_oneof![9 => gen::len_lattice(max).prop_map(|l| l as u32), 1 => (1u32 << 20)..=(5u32 << 20)],
        gen::content(),
        prop::collection::vec(ev_strategy(), 0..40),
        0u16..=3000,
    )
        .prop_map(|(mode, prefix_len, len, content, script, suffix_len)| RCase { mode, prefix_len, len, content, script, suffix_len })
        .boxed()
}

// ---------------------------------------------------------------------------
// files: update_mmap == update_mmap_rayon == update_reader(File) == spec
// ---------------------------------------------------------------------------
#[derive(Clone, Debug, Serialize, Deserialize)]
pub enum FCase {
    Regular { mode: ModeC, prefix_len: u16, len: u32, content: Content },
    /// a path that exists on this system with stable, finite content
    Special { path: String },
    Directory,
    Missing,
    /// a read-only loop block device over an image of `blocks` x 512 bytes (seekable and mappable, but fstat reports
    /// size 0); skipped with no verdict where `losetup` is not available
    BlockDevice { mode: ModeC, prefix_len: u16, blocks: u32, content: Content },
    /// a named pipe fed by a writer thread in `pieces` (short reads, no length, not mappable); api: 0 = update_mmap,
    /// 1 = update_mmap_rayon, 2 = update_reader(File)
    Fifo { mode: ModeC, prefix_len: u16, pieces: Vec<u32>, content: Content, api: u8, pause_us: u16 },
}

/// Deliver `data` through a named pipe fed by a writer thread in `pieces` (the last piece takes whatever remains),
/// and run `f` on the pipe's path. The writer is always drained and joined, whatever `f` does.
pub fn through_fifo<R>(data: &[u8], pieces: &[u32], pause_us: u16, f: impl FnOnce(&std::path::Path) -> R) -> Result<R, String> {
    use std::io::Write;
    use std::os::unix::ffi::OsStrExt;
    use std::sync::atomic::{AtomicU64, Ordering};
    static N: AtomicU64 = AtomicU64::new(0);
    let path = crate::hist::scratch_dir().join(format!("fifo-{}-{}", std::process::id(), N.fetch_add(1, Ordering::Relaxed)));
    let cpath = std::ffi::CString::new(path.as_os_str().as_bytes()).map_err(|e| format!("ENGINE: {}", e))?;
    if unsafe { libc::mkfifo(cpath.as_ptr(), 0o600) } != 0 {
        return Err(format!("ENGINE: mkfifo: {}", std::io::Error::last_os_error()));
    }
    struct Rm(std::path::PathBuf);
    impl Drop for Rm {
        fn drop(&mut self) {
            let _ = std::fs::remove_file(&self.0);
        }
    }
    let _rm = Rm(path.clone());
    let wpath = path.clone();
    let wdata = data.to_vec();
    let wpieces = pieces.to_vec();
    // the writer blocks in open() until the code under test opens the pipe for reading; write errors (EPIPE when the
    // reader gives up early) are ignored: the verdict comes from the reader's side
    let writer = std::thread::spawn(move || {
        if let Ok(mut f) = std::fs::OpenOptions::new().write(true).open(&wpath) {
            let mut at = 0usize;
            for p in wpieces {
                let end = core::cmp::min(wdata.len(), at + p as usize);
                if f.write_all(&wdata[at..end]).is_err() {
                    return;
                }
                at = end;
                if pause_us > 0 {
                    std::thread::sleep(std::time::Duration::from_micros(pause_us as u64));
                }
            }
            let _ = f.write_all(&wdata[at..]);
        }
    });
    let r = f(&path);
    // make sure the writer can finish whatever happened: drain the pipe from a non-blocking reader until it is done
    if !writer.is_finished() {
        use std::io::Read;
        use std::os::unix::fs::OpenOptionsExt;
        if let Ok(mut d) = std::fs::OpenOptions::new().read(true).custom_flags(libc::O_NONBLOCK).open(&path) {
            let mut buf = vec![0u8; 65536];
            let t0 = std::time::Instant::now();
            while !writer.is_finished() && t0.elapsed().as_secs() < 20 {
                let _ = d.read(&mut buf);
                std::thread::sleep(std::time::Duration::from_micros(200));
            }
        }
    }
    let _ = writer.join();
    Ok(r)
}

fn check_fifo(mode: &ModeC, prefix_len: u16, pieces: &[u32], content: &Content, api: u8, pause_us: u16) -> Result<(), String> {
    let total: usize = pieces.iter().map(|p| *p as usize).sum();
    let all = content.expand(prefix_len as usize + total);
    let (prefix, data) = all.split_at(prefix_len as usize);
    let mut h = mode.hasher();
    h.update(prefix);
    let what = ["update_mmap", "update_mmap_rayon", "update_reader(File)"][api as usize % 3];
    let r = through_fifo(data, pieces, pause_us, |path| match api % 3 {
        0 => h.update_mmap(path).map(|_| ()),
        1 => h.update_mmap_rayon(path).map(|_| ()),
        _ => match std::fs::File::open(path) {
            Ok(f) => h.update_reader(f).map(|_| ()),
            Err(e) => Err(e),
        },
    })?;
    r.map_err(|e| format!("{} on a named pipe failed: {}", what, e))?;
    let mut model = b3spec::Incr::new(mode.kf());
    model.push(prefix);
    model.push(data);
    ensure!(h.count() == model.len(), "{} on a named pipe fed {} bytes in {} pieces absorbed {} bytes", what, total, pieces.len(), h.count() - prefix.len() as u64);
    eq_bytes(&format!("{} on a named pipe ({} bytes in {} pieces)", what, total, pieces.len()), h.finalize().as_bytes(), &model.output().hash())
}

fn three_ways(mode: &ModeC, prefix: &[u8], path: &std::path::Path, expect: &[u8]) -> Result<(), String> {
    let mut model = b3spec::Incr::new(mode.kf());
    model.push(prefix);
    model.push(expect);
    let want = model.output().hash();
    let mut a = mode.hasher();
    a.update(prefix);
    a.update_mmap(path).map_err(|e| format!("update_mmap({}) failed: {}", path.display(), e))?;
    ensure!(a.count() == model.len(), "update_mmap absorbed {} bytes, the file has {}", a.count() - prefix.len() as u64, expect.len());
    eq_bytes(&format!("update_mmap on a file of {} bytes", expect.len()), a.finalize().as_bytes(), &want)?;
    let mut b = mode.hasher();
    b.update(prefix);
    b.update_mmap_rayon(path).map_err(|e| format!("update_mmap_rayon failed: {}", e))?;
    ensure!(b.count() == model.len(), "update_mmap_rayon absorbed {} bytes, the file has {}", b.count() - prefix.len() as u64, expect.len());
    eq_bytes(&format!("update_mmap_rayon on a file of {} bytes", expect.len()), b.finalize().as_bytes(), &want)?;
    let mut c = mode.hasher();
    c.update(prefix);
    let f = std::fs::File::open(path).map_err(|e| format!("ENGINE: open: {}", e))?;
    c.update_reader(f).map_err(|e| format!("update_reader(File) failed: {}", e))?;
    ensure!(c.count() == model.len(), "update_reader(File) absorbed {} bytes, the file has {}", c.count() - prefix.len() as u64, expect.len());
    eq_bytes(&format!("update_reader(File) on a file of {} bytes", expect.len()), c.finalize().as_bytes(), &want)?;
    Ok(())
}

pub fn check_file(c: &FCase) -> Result<(), String> {
    match c {
        FCase::Regular { mode, prefix_len, len, content } => {
            let all = content.expand(*prefix_len as usize + *len as usize);
            let (prefix, data) = all.split_at(*prefix_len as usize);
            let f = ScratchFile::with_bytes("c11", data).map_err(|e| format!("ENGINE scratch file: {}", e))?;
            three_ways(mode, prefix, &f.path, data)
        }
        FCase::Special { path } => {
            let p = std::path::Path::new(path);
            let before = match std::fs::read(p) {
                Ok(b) => b,
                Err(_) => return Ok(()), // not present/readable here: nothing to check
            };
            let r = three_ways(&ModeC::Hash, b"", p, &before);
            let after = std::fs::read(p).unwrap_or_default();
            if after != before {
                return Ok(()); // content is not stable on this system: no verdict
            }
            r
        }
        FCase::Directory => {
            let d = crate::hist::scratch_dir();
            let mut h = blake3::Hasher::new();
            ensure!(h.update_mmap(&d).is_err(), "update_mmap on a directory returned Ok");
            ensure!(h.update_mmap_rayon(&d).is_err(), "update_mmap_rayon on a directory returned Ok");
            ensure!(h.count() == 0 && h.finalize() == blake3::hash(b""), "a failed update_mmap changed the hasher");
            Ok(())
        }
        FCase::BlockDevice { mode, prefix_len, blocks, content } => {
            let all = content.expand(*prefix_len as usize + *blocks as usize * 512);
            let (prefix, data) = all.split_at(*prefix_len as usize);
            let img = ScratchFile::with_bytes("c11-img", data).map_err(|e| format!("ENGINE scratch file: {}", e))?;
            let out = match std::process::Command::new("losetup").arg("--find").arg("--show").arg("--read-only").arg(&img.path).output() {
                Ok(o) if o.status.success() => o,
                _ => return Ok(()), // no loop devices here: nothing to check
            };
            let dev = String::from_utf8_lossy(&out.stdout).trim().to_string();
            struct Detach(String);
            impl Drop for Detach {
                fn drop(&mut self) {
                    let _ = std::process::Command::new("losetup").arg("-d").arg(&self.0).output();
                }
            }
            let _d = Detach(dev.clone());
            if !dev.starts_with("/dev/") || std::fs::File::open(&dev).is_err() {
                return Ok(());
            }
            three_ways(mode, prefix, std::path::Path::new(&dev), data).map_err(|e| format!("[block device {} over a {}-byte image] {}", dev, data.len(), e))
        }
        FCase::Fifo { mode, prefix_len, pieces, content, api, pause_us } => check_fifo(mode, *prefix_len, pieces, content, *api, *pause_us),
        FCase::Missing => {
            let p = crate::hist::scratch_dir().join("does-not-exist");
            let mut h = blake3::Hasher::new();
            let e = h.update_mmap(&p).err().ok_or("update_mmap on a missing path returned Ok")?;
            ensure!(e.kind() == ErrorKind::NotFound, "update_mmap on a missing path: {:?}", e.kind());
            ensure!(h.update_mmap_rayon(&p).is_err(), "update_mmap_rayon on a missing path returned Ok");
            ensure!(h.count() == 0, "a failed update_mmap changed the hasher");
            Ok(())
        }
    }
}

pub fn classify_file(c: &FCase) -> Classes {
    match c {
        FCase::Regular { len, prefix_len, .. } => {
            let d = (*len as i64 - 16384).abs();
            Classes::new(d <= 4 || *len > 16384)
                .tag(d <= 4, "len-within-4-of-16KiB")
                .tag(*len < 16384, "below-mmap-threshold")
                .tag(*len >= 16384, "mmap-path")
                .tag(*len == 0, "empty-file")
                .tag(*prefix_len > 0, "prefix-in-hasher")
                .tag(*len > 128 * 1024, "len>128KiB")
        }
        FCase::Special { .. } => Classes::new(true).tag(true, "special-path"),
        FCase::Directory => Classes::new(true).tag(true, "directory"),
        FCase::Missing => Classes::new(true).tag(true, "missing-path"),
        FCase::BlockDevice { blocks, .. } => Classes::new(true).tag(true, "block-device").tag(*blocks >= 32, "block-device>=16KiB"),
        FCase::Fifo { pieces, api, .. } => Classes::new(pieces.len() >= 2)
            .tag(true, "named-pipe")
            .tag(pieces.len() >= 2, "pipe-fed-in-pieces")
            .tag(pieces.iter().map(|p| *p as u64).sum::<u64>() > 65536, "pipe>64KiB")
            .tag(*api % 3 == 0, "pipe-update_mmap")
            .tag(*api % 3 == 1, "pipe-update_mmap_rayon")
            .tag(*api % 3 == 2, "pipe-update_reader"),
    }
}

fn file_items(tier: Tier) -> Box<dyn Iterator<Item = FCase>> {
    let mut v = Vec::new();
    let mut lens: Vec<u32> = vec![0, 1, 2, 63, 64, 65, 1023, 1024, 1025, 4095, 4096, 4097, 8192, 12288];
    lens.extend(16370..=16400);
    lens.extend([32767, 32768, 32769, 65535, 65536, 65537, 131071, 131072, 131073, 262144 + 1]);
    if tier == Tier::Thorough {
        lens.extend((16384 - 70..=16384 + 70).filter(|x| !(16370..=16400).contains(x)));
        lens.extend([(1 << 22) - 1, 1 << 22, 3 * (1 << 20) + 1023]);
    }
    lens.extend([1 << 20, (1 << 20) + 1, (1 << 21) + 5]);
    for (i, len) in lens.iter().enumerate() {
        let mode = match i % 3 {
            0 => ModeC::Hash,
            1 => ModeC::Keyed(*gen::TEST_KEY),
            _ => ModeC::Derive(gen::CtxSpec { kind: 0, len: 20, seed: i as u64 }),
        };
        v.push(FCase::Regular { mode, prefix_len: if i % 4 == 3 { 100 } else { 0 }, len: *len, content: Content { kind: 3, seed: i as u64 } });
    }
    // /sys/kernel/btf/vmlinux: several MB, readable, but mmap() fails on it (the repository's own io test uses it)
    for p in ["/proc/version", "/proc/sys/kernel/osrelease", "/dev/null", "/proc/self/cmdline", "/etc/hostname", "/sys/kernel/notes", "/proc/filesystems", "/sys/kernel/btf/vmlinux", "/proc/kallsyms", "/proc/modules", "/proc/self/environ", "/proc/config.gz"] {
        v.push(FCase::Special { path: p.to_string() });
    }
    v.push(FCase::Directory);
    v.push(FCase::Missing);
    // block devices (loop devices over scratch images): below, at and above the 16 KiB mapping threshold
    for (i, blocks) in [1u32, 31, 32, 33, 1954].iter().enumerate() {
        v.push(FCase::BlockDevice { mode: if i % 2 == 0 { ModeC::Hash } else { ModeC::Keyed(*gen::TEST_KEY) }, prefix_len: if i == 2 { 100 } else { 0 }, blocks: *blocks, content: Content { kind: 3, seed: 700 + i as u64 } });
    }
    // named pipes: one piece, several short pieces, pieces around the 16 KiB mapping threshold and the 64 KiB read buffer
    let shapes: Vec<Vec<u32>> = vec![vec![], vec![1], vec![5000, 5000, 5000], vec![16383, 1, 16384], vec![16384], vec![65536, 1], vec![100, 70_000, 3], vec![4096; 40], vec![1; 50]];
    for (i, pieces) in shapes.into_iter().enumerate() {
        for api in 0..3u8 {
            v.push(FCase::Fifo { mode: ModeC::Hash, prefix_len: if i % 2 == 1 { 77 } else { 0 }, pieces: pieces.clone(), content: Content { kind: 3, seed: 900 + i as u64 }, api, pause_us: 300 });
        }
    }
    Box::new(v.into_iter())
}

fn file_strategy(tier: Tier) -> BoxedStrategy<FCase> {
    let max = tier.pick(512 * 1024u32, 8 * 1024 * 1024u32);
    let regular = (gen::mode4(), prop_oneof![3 => Just(0u16), 1 => 1u16..=3000], prop_oneof![6 => 16300u32..=16500, 4 => 0u32..=70_000, 4 => 0u32..=max, 1 => (1u32 << 20)..=(5u32 << 20)], gen::content())
        .prop_map(|(mode, prefix_len, len, content)| FCase::Regular { mode, prefix_len, len, content });
    let piece = prop_oneof![3 => 1u32..=200, 3 => 1u32..=5000, 2 => 16_000u32..=17_000, 1 => 60_000u32..=70_000, 1 => Just(0u32)];
    let fifo = (gen::mode4(), prop_oneof![3 => Just(0u16), 1 => 1u16..=3000], prop::collection::vec(piece, 0..=12), gen::content(), 0u8..3, prop_oneof![Just(0u16), 50u16..=800])
        .prop_map(|(mode, prefix_len, pieces, content, api, pause_us)| FCase::Fifo { mode, prefix_len, pieces, content, api, pause_us });
    prop_oneof![12 => regular, 1 => fifo].boxed()
}

// ---------------------------------------------------------------------------
// Write adapter
// ---------------------------------------------------------------------------
#[derive(Clone, Debug, Serialize, Deserialize)]
pub struct WCase {
    pub mode: ModeC,
    pub content: Content,
    pub writes: Vec<u32>,
    /// 0 = write, 1 = write_all, 2 = io::copy with a chunked source, 3 = write_vectored (two halves per write), 4 = BufWriter,
    /// 5 = one write_vectored call over all slices (repeated for the remainder), 6 = the same three slices at a time,
    /// 7 = write! / writeln! with formatted text derived from the data
    pub how: u8,
}

pub fn check_write(c: &WCase) -> Result<(), String> {
    let total: usize = c.writes.iter().map(|w| *w as usize).sum();
    let data = c.content.expand(total);
    let mut h = c.mode.hasher();
    let mut pos = 0usize;
    if c.how % 8 == 7 {
        // write! / writeln! (Write::write_fmt): text derived from the data: strings, single chars (ASCII, U+0080..U+00FF,
        // multi-byte), integers, padded fields with a non-ASCII fill character; the bytes absorbed must be exactly
        // those of format!() with the same arguments
        let mut expect: Vec<u8> = Vec::new();
        for (k, w) in c.writes.iter().enumerate() {
            let seg = &data[pos..pos + core::cmp::min(*w as usize, 48)];
            pos += *w as usize;
            let text: String = seg.iter().map(|b| char::from_u32(0x20 + *b as u32 * 3).unwrap_or('?')).collect();
            let latin1 = char::from_u32(0x80 + (*w % 0x80)).unwrap_or('\u{e9}');
            let from_byte = seg.first().map(|b| char::from(*b)).unwrap_or('\u{a7}');
            let n = (*w as u64).wrapping_mul(2654435761);
            if k % 2 == 0 {
                write!(h, "{}{}|{}|{:>7}|{:\u{e9}<5}|{:?}", text, latin1, from_byte, n, w % 100, latin1).map_err(|e| e.to_string())?;
                expect.extend_from_slice(format!("{}{}|{}|{:>7}|{:\u{e9}<5}|{:?}", text, latin1, from_byte, n, w % 100, latin1).as_bytes());
            } else {
                writeln!(h, "{}{:x}{}", from_byte, n, text).map_err(|e| e.to_string())?;
                expect.extend_from_slice(format!("{}{:x}{}\n", from_byte, n, text).as_bytes());
            }
        }
        h.flush().map_err(|e| e.to_string())?;
        ensure!(h.count() == expect.len() as u64, "count() = {} after write!/writeln! of {} bytes of formatted text", h.count(), expect.len());
        return eq_bytes("hash after write!/writeln! (Write::write_fmt)", h.finalize().as_bytes(), &b3spec::root(&c.mode.kf(), &expect).hash());
    }
    match c.how % 8 % 7 {
        5 | 6 => {
            // write_vectored with many slices per call (how 5: all of them, how 6: three at a time); after a partial
            // write the call is repeated with the slices that remain, as write_all_vectored does
            let mut slices: Vec<&[u8]> = Vec::new();
            for w in &c.writes {
                slices.push(&data[pos..pos + *w as usize]);
                pos += *w as usize;
            }
            let group = if c.how % 8 == 5 { slices.len().max(1) } else { 3 };
            for g in slices.chunks(group) {
                let mut rest: Vec<&[u8]> = g.to_vec();
                let mut guard = 0;
                while rest.iter().any(|s| !s.is_empty()) {
                    let bufs: Vec<io::IoSlice> = rest.iter().map(|s| io::IoSlice::new(s)).collect();
                    let mut n = h.write_vectored(&bufs).map_err(|e| e.to_string())?;
                    let want: usize = rest.iter().map(|s| s.len()).sum();
                    ensure!(n <= want, "write_vectored reports {} bytes written, only {} were offered", n, want);
                    ensure!(n > 0, "write_vectored wrote nothing although {} bytes were offered", want);
                    for s in rest.iter_mut() {
                        let k = core::cmp::min(n, s.len());
                        *s = &s[k..];
                        n -= k;
                    }
                    guard += 1;
                    ensure!(guard < 100_000, "ENGINE: write_vectored loop does not terminate");
                }
            }
            h.flush().map_err(|e| e.to_string())?;
        }
        4 => {
            let mut bw = io::BufWriter::with_capacity(777, &mut h);
            for w in &c.writes {
                bw.write_all(&data[pos..pos + *w as usize]).map_err(|e| e.to_string())?;
                pos += *w as usize;
            }
            bw.flush().map_err(|e| e.to_string())?;
        }
        2 => {
            let mut src = crate::hist::ShortReader::new(&data, c.writes.len() as u64);
            let n = io::copy(&mut src, &mut h).map_err(|e| e.to_string())?;
            ensure!(n == total as u64, "io::copy moved {} of {} bytes", n, total);
        }
        how => {
            for w in &c.writes {
                let buf = &data[pos..pos + *w as usize];
                match how {
                    0 => {
                        let n = h.write(buf).map_err(|e| e.to_string())?;
                        ensure!(n == buf.len(), "Write::write consumed {} of {} bytes", n, buf.len());
                    }
                    1 => h.write_all(buf).map_err(|e| e.to_string())?,
                    _ => {
                        let (a, b) = buf.split_at(buf.len() / 2);
                        let bufs = [io::IoSlice::new(a), io::IoSlice::new(b)];
                        let mut done = h.write_vectored(&bufs).map_err(|e| e.to_string())?;
                        // the default write_vectored may consume only the first non-empty slice: finish the rest
                        while done < buf.len() {
                            done += h.write(&buf[done..]).map_err(|e| e.to_string())?;
                        }
                    }
                }
                pos += *w as usize;
            }
            h.flush().map_err(|e| e.to_string())?;
        }
    }
    ensure!(h.count() == total as u64, "count() = {} after writing {} bytes", h.count(), total);
    eq_bytes("hash after Write-based input", h.finalize().as_bytes(), &b3spec::root(&c.mode.kf(), &data).hash())
}

fn write_strategy(_tier: Tier) -> BoxedStrategy<WCase> {
    (gen::mode4(), gen::content(), prop::collection::vec(prop_oneof![4 => 0u32..=100, 4 => 0u32..=3000, 4 => 0u32..=40_000, 1 => 60_000u32..=200_000, 1 => crate::gen::select(vec![65_535u32, 65_536, 65_537, 131_072])], 0..12), 0u8..8)
        .prop_map(|(mode, content, writes, how)| WCase { mode, content, writes, how })
        .boxed()
}

pub fn subs() -> Vec<Box<dyn DynSub>> {
    vec![
        Box::new(PropSub::<RCase> {
            name: "scripted-readers",
            rule: "proptest: data (boundary-lattice length <= 300 KiB quick / 4 MiB thorough) behind a scripted Read: per read call one of short read / full read / Err(Interrupted) / hard error of any stable ErrorKind (38 kinds) / early Ok(0), then full reads to EOF; optional prefix already in the hasher, update() continues afterwards; oracle: update_reader returns Ok iff the reader ended with Ok(0), returns the reader's own error kind otherwise, never reads after the end, never surfaces Interrupted, and the hasher == spec(prefix || bytes yielded before the terminating event [|| suffix]); non-trivial = a short read and (an Interrupted after data or a hard error)",
            cases: (24_000, 120_000),
            strategy: reader_strategy,
            classify: classify_reader,
            check: check_reader,
            known: None,
            crumb: false,
        }),
        Box::new(EnumSub::<FCase> {
            name: "files-lattice",
            rule: "enumeration: regular files of lengths 0,1,..,every length 16370..=16400 (16 KiB mapping threshold), 32 KiB/64 KiB/128 KiB +-1, ... in three modes with and without a prefix; special paths present on this system with stable content (/proc/version, /dev/null, /proc/kallsyms, /sys/kernel/btf/vmlinux whose mmap fails, ...), named pipes fed in pieces by a writer thread (9 shapes x 3 APIs), read-only loop block devices over images of 512 B-1 MB (where losetup works), a directory, a missing path; oracle: update_mmap == update_mmap_rayon == update_reader(File) == spec(file bytes); directory/missing give Err and leave the hasher untouched",
            items: file_items,
            classify: classify_file,
            check: check_file,
            exhaustive: false,
            known: None,
            crumb: false,
        }),
        Box::new(PropSub::<FCase> {
            name: "files-random",
            rule: "proptest: regular files with lengths concentrated in 16300..=16500 plus uniform <= 70 KB and <= 512 KiB (8 MiB thorough), four modes, optional prefix; one case in 13 a named pipe fed in 0-12 pieces (1 B-70 KB each, optional pauses) through update_mmap / update_mmap_rayon / update_reader; same oracle",
            cases: (4_000, 30_000),
            strategy: file_strategy,
            classify: classify_file,
            check: check_file,
            known: None,
            crumb: false,
        }),
        Box::new(PropSub::<WCase> {
            name: "write-adapter",
            rule: "proptest: the same bytes delivered through Write::write (must return buf.len()), write_all, io::copy from a short-read source, write_vectored (two halves per write, all slices in one call, or three at a time, with slices from 0 bytes to 200 KB incl. 64 KiB +-1), BufWriter, write!/writeln! with strings, chars (incl. U+0080..U+00FF), integers and padded fields; oracle: count() and hash == spec",
            cases: (12_000, 60_000),
            strategy: write_strategy,
            classify: |c| Classes::new(c.writes.len() >= 2).tag(c.how % 8 == 0, "write").tag(c.how % 8 == 1, "write_all").tag(c.how % 8 == 2, "io::copy").tag(c.how % 8 == 3, "write_vectored(2)").tag(c.how % 8 == 4, "BufWriter").tag(c.how % 8 == 5, "write_vectored(all)").tag(c.how % 8 == 6, "write_vectored(3)").tag(c.how % 8 == 7, "write_fmt").tag(c.writes.iter().any(|w| *w >= 65_536), "slice>=64KiB"),
            check: check_write,
            known: None,
            crumb: false,
        }),
    ]
}
