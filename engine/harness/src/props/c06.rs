//! C06 — the C library computes the same function as the specification and the crate.
#![cfg(feature = "cshim")]

use crate::cshim::{self, CApi, CHasher};
use crate::ensure;
use crate::gen::{self, Content, CtxSpec};
use crate::hist::{self, Size};
use crate::levels::{Level, ALL_LEVELS};
use crate::runner::{eq_bytes, Classes, DynSub, PropSub, Tier};
use proptest::prelude::*;
use serde::{Deserialize, Serialize};
use std::os::raw::c_void;

#[derive(Clone, Debug, Serialize, Deserialize, PartialEq, Eq)]
pub enum InitC {
    Plain,
    Keyed([u8; 32]),
    /// blake3_hasher_init_derive_key (NUL-terminated string)
    DeriveStr(CtxSpec),
    /// blake3_hasher_init_derive_key_raw (any bytes)
    DeriveRaw(CtxSpec),
}

impl InitC {
    pub fn kf(&self) -> b3spec::KeyFlags {
        match self {
            InitC::Plain => b3spec::KeyFlags::hash(),
            InitC::Keyed(k) => b3spec::KeyFlags::keyed(k),
            InitC::DeriveStr(c) | InitC::DeriveRaw(c) => b3spec::KeyFlags::derive_key(&c.bytes()),
        }
    }
    pub unsafe fn init(&self, api: &CApi, h: *mut CHasher) {
        match self {
            InitC::Plain => (api.init)(h),
            InitC::Keyed(k) => (api.init_keyed)(h, k.as_ptr()),
            InitC::DeriveStr(c) => {
                let mut s = c.bytes();
                s.push(0);
                (api.init_derive_key)(h, s.as_ptr() as *const _);
            }
            InitC::DeriveRaw(c) => {
                let s = c.bytes();
                let p = if s.is_empty() { core::ptr::NonNull::<u8>::dangling().as_ptr() as *const c_void } else { s.as_ptr() as *const c_void };
                (api.init_derive_key_raw)(h, p, s.len());
            }
        }
    }
    /// The Rust crate's hasher for the same mode, when the crate has the same API (UTF-8 contexts).
    pub fn rust_hasher(&self) -> Option<blake3::Hasher> {
        match self {
            InitC::Plain => Some(blake3::Hasher::new()),
            InitC::Keyed(k) => Some(blake3::Hasher::new_keyed(k)),
            InitC::DeriveStr(c) | InitC::DeriveRaw(c) => {
                if c.kind == 2 {
                    None
                } else {
                    Some(blake3::Hasher::new_derive_key(&c.string()))
                }
            }
        }
    }
    pub fn tag(&self) -> &'static str {
        match self {
            InitC::Plain => "init=init",
            InitC::Keyed(_) => "init=init_keyed",
            InitC::DeriveStr(_) => "init=init_derive_key",
            InitC::DeriveRaw(_) => "init=init_derive_key_raw",
        }
    }
}

#[derive(Clone, Debug, Serialize, Deserialize, PartialEq, Eq)]
pub enum COp {
    Update(Size),
    /// update(NULL, 0)
    UpdateNull,
    Finalize(u16),
    FinalizeSeek(u64, u16),
    /// finalize_seek(seek, NULL, 0)
    FinalizeNullZero(u64),
    Reset,
    /// struct assignment into the other slot
    Copy,
    Swap,
}

#[derive(Clone, Debug, Serialize, Deserialize)]
pub struct Case {
    /// 0 = assembly build (ca_), 1 = C-intrinsics build (ci_)
    pub variant: u8,
    pub mask: Level,
    pub init: InitC,
    pub content: Content,
    pub budget: u32,
    pub ops: Vec<COp>,
}

/// 0 = assembly build, 1 = C intrinsics build, 2.. = NDEBUG and BLAKE3_NO_* builds (see cshim::all_apis)
pub fn api_of(variant: u8) -> CApi {
    let all = cshim::all_apis();
    all[variant as usize % all.len()]
}

fn lib_tag(variant: u8) -> &'static str {
    const T: [&str; 9] = ["lib=assembly", "lib=c-intrinsics", "lib=assembly-NDEBUG", "lib=c-intrinsics-NDEBUG", "lib=NO_SSE41", "lib=NO_AVX512", "lib=NO_AVX512+NO_AVX2", "lib=portable-only", "lib=NO_SSE2"];
    T[variant as usize % cshim::all_apis().len() % 9]
}

/// Library build selector: the two main builds most of the time, the others now and then.
pub fn variant_strategy() -> BoxedStrategy<u8> {
    let n = cshim::all_apis().len() as u8;
    prop_oneof![3 => 0u8..2, 2 => 2u8..n].boxed()
}

pub struct Slot {
    pub h: Box<CHasher>,
    pub twin: Option<Box<CHasher>>,
    pub model: b3spec::Incr,
    pub rust: Option<blake3::Hasher>,
}

const CANARY: u8 = 0x5C;

/// finalize_seek into a canaried buffer; checks the struct is not modified.
pub unsafe fn c_output(api: &CApi, h: &CHasher, seek: Option<u64>, k: usize, what: &str) -> Result<Vec<u8>, String> {
    let before: Vec<u8> = h.as_bytes().to_vec();
    let mut out = vec![CANARY; k + 32];
    match seek {
        None => (api.finalize)(h, out.as_mut_ptr(), k),
        Some(s) => (api.finalize_seek)(h, s, out.as_mut_ptr(), k),
    }
    ensure!(h.as_bytes() == &before[..], "{}: finalize modified the hasher object", what);
    ensure!(out[k..].iter().all(|&b| b == CANARY), "{}: finalize wrote more than out_len = {} bytes", what, k);
    out.truncate(k);
    Ok(out)
}

pub fn check_slot(api: &CApi, s: &Slot, seek: u64, k: usize, what: &str) -> Result<(), String> {
    let k = core::cmp::min(k as u64, u64::MAX - seek) as usize;
    let want = s.model.output().xof(seek, k);
    let got = unsafe { c_output(api, &s.h, if seek == 0 { None } else { Some(seek) }, k, what)? };
    eq_bytes(&format!("{}: {} C output S[{}..+{}] vs spec", api.name, what, seek, k), &got, &want)?;
    if seek == 0 {
        // finalize(k) is finalize_seek(0, k)
        let g2 = unsafe { c_output(api, &s.h, Some(0), k, what)? };
        ensure!(g2 == got, "{}: {}: finalize and finalize_seek(0) disagree", api.name, what);
    }
    if let Some(t) = &s.twin {
        let g3 = unsafe { c_output(api, t, Some(seek), k, what)? };
        ensure!(g3 == got, "{}: {}: output after reset differs from a freshly initialised hasher fed the same input", api.name, what);
    }
    if let Some(r) = &s.rust {
        let mut x = r.finalize_xof();
        x.set_position(seek);
        let mut buf = vec![0u8; k];
        x.fill(&mut buf);
        eq_bytes(&format!("{}: {}: C output vs Rust crate output", api.name, what), &got, &buf)?;
    }
    Ok(())
}

pub fn run_history(api: &CApi, c: &Case) -> Result<(), String> {
    let data = c.content.expand(c.budget as usize);
    let mut cursor = 0usize;
    let kf = c.init.kf();
    let mut h = Box::new(CHasher::zeroed());
    unsafe { c.init.init(api, &mut *h) };
    if let InitC::DeriveStr(ctx) = &c.init {
        // the two derive-key initialisers agree
        let mut h2 = Box::new(CHasher::zeroed());
        unsafe { InitC::DeriveRaw(ctx.clone()).init(api, &mut *h2) };
        ensure!(h.key == h2.key && h.chunk.cv == h2.chunk.cv && h.chunk.flags == h2.chunk.flags, "{}: init_derive_key and init_derive_key_raw produce different states", api.name);
    }
    let mut slots = vec![Slot { h, twin: None, model: b3spec::Incr::new(kf), rust: c.init.rust_hasher() }];
    let mut cur = 0usize;
    check_slot(api, &slots[0], 0, 64, "fresh hasher")?;
    for (i, op) in c.ops.iter().enumerate() {
        let what = format!("op #{} {:?}", i, op);
        match op {
            COp::Update(sz) => {
                let s = &mut slots[cur];
                let n = sz.resolve(s.model.len(), data.len() - cursor);
                let bytes = &data[cursor..cursor + n];
                cursor += n;
                unsafe {
                    (api.update)(&mut *s.h, bytes.as_ptr() as *const c_void, n);
                    if let Some(t) = &mut s.twin {
                        (api.update)(&mut **t, bytes.as_ptr() as *const c_void, n);
                    }
                }
                if let Some(r) = &mut s.rust {
                    r.update(bytes);
                }
                s.model.push(bytes);
                check_slot(api, s, 0, 32, &what)?;
            }
            COp::UpdateNull => {
                let s = &mut slots[cur];
                let before = s.h.as_bytes().to_vec();
                unsafe { (api.update)(&mut *s.h, core::ptr::null(), 0) };
                ensure!(s.h.as_bytes() == &before[..], "{}: {}: zero-length update changed the hasher", api.name, what);
            }
            COp::Finalize(k) => check_slot(api, &slots[cur], 0, *k as usize, &what)?,
            COp::FinalizeSeek(seek, k) => check_slot(api, &slots[cur], *seek, *k as usize, &what)?,
            COp::FinalizeNullZero(seek) => {
                let s = &slots[cur];
                let before = s.h.as_bytes().to_vec();
                unsafe { (api.finalize_seek)(&*s.h, *seek, core::ptr::null_mut(), 0) };
                ensure!(s.h.as_bytes() == &before[..], "{}: {}: zero-length finalize changed the hasher", api.name, what);
            }
            COp::Reset => {
                let s = &mut slots[cur];
                unsafe { (api.reset)(&mut *s.h) };
                let mut t = Box::new(CHasher::zeroed());
                unsafe { c.init.init(api, &mut *t) };
                s.twin = Some(t);
                s.model = b3spec::Incr::new(kf);
                s.rust = c.init.rust_hasher();
                check_slot(api, s, 0, 64, &what)?;
            }
            COp::Copy => {
                let s = &slots[cur];
                let copy = Slot { h: Box::new(*s.h), twin: s.twin.as_ref().map(|t| Box::new(**t)), model: s.model.clone(), rust: s.rust.clone() };
                if slots.len() == 1 {
                    slots.push(copy);
                } else {
                    slots[1 - cur] = copy;
                }
            }
            COp::Swap => {
                if slots.len() == 2 {
                    cur = 1 - cur;
                }
            }
        }
    }
    for (k, s) in slots.iter().enumerate() {
        check_slot(api, s, 0, 200, &format!("end of history, slot {}", k))?;
    }
    Ok(())
}

pub fn check(c: &Case) -> Result<(), String> {
    let api = api_of(c.variant);
    if !c.mask.cpu_has() {
        return Ok(());
    }
    unsafe { *api.features = cshim::mask_for(c.mask) };
    let expect_degree = api.expected_degree(c.mask);
    let got_degree = unsafe { (api.degree)() };
    ensure!(got_degree == expect_degree, "{}: blake3_simd_degree() = {} under feature mask for {:?} (expected {})", api.name, got_degree, c.mask, expect_degree);
    let r = run_history(&api, c).map_err(|e| format!("[mask {:?}] {}", c.mask, e));
    unsafe { *api.features = cshim::F_UNDEFINED };
    r
}

pub fn classify(c: &Case) -> Classes {
    let mut len = 0u64;
    let mut lens = vec![0u64];
    let mut cur = 0usize;
    let mut cursor = 0usize;
    let mut updates = 0;
    let mut max_total = 0u64;
    let mut unaligned_seek = false;
    let mut reset = false;
    let mut big_seek = false;
    for op in &c.ops {
        match op {
            COp::Update(sz) => {
                let n = sz.resolve(len, c.budget as usize - cursor);
                cursor += n;
                len += n as u64;
                updates += 1;
                max_total = max_total.max(len);
            }
            COp::FinalizeSeek(s, k) => {
                unaligned_seek |= s % 64 != 0 && *k > 0;
                big_seek |= *s >= (1u64 << 38);
            }
            COp::Reset => {
                reset = true;
                len = 0;
            }
            COp::Copy => {
                if lens.len() == 1 {
                    lens.push(len);
                } else {
                    lens[1 - cur] = len;
                }
            }
            COp::Swap => {
                if lens.len() == 2 {
                    lens[cur] = len;
                    cur = 1 - cur;
                    len = lens[cur];
                }
            }
            _ => {}
        }
    }
    let mask_tag = match c.mask {
        Level::Portable => "mask=portable",
        Level::Sse2 => "mask=SSE2",
        Level::Sse41 => "mask=SSE4.1",
        Level::Avx2 => "mask=AVX2",
        Level::Avx512 => "mask=AVX-512",
    };
    Classes::new((updates >= 2 && max_total > 1024) || unaligned_seek || reset)
        .tag(true, c.init.tag())
        .tag(true, mask_tag)
        .tag(true, lib_tag(c.variant))
        .tag(unaligned_seek, "seek%64!=0")
        .tag(big_seek, "seek>=2^38(block counter>=2^32)")
        .tag(reset, "reset")
        .tag(lens.len() == 2, "struct-copy")
        .tag(max_total > 16 * 1024, "total>16chunks")
}

pub fn init_strategy() -> BoxedStrategy<InitC> {
    prop_oneof![
        3 => Just(InitC::Plain),
        3 => gen::key32().prop_map(InitC::Keyed),
        2 => gen::ctx_spec(3000, false).prop_map(InitC::DeriveStr),
        2 => gen::ctx_spec(3000, true).prop_map(InitC::DeriveRaw),
    ]
    .boxed()
}

pub fn op_strategy(max_abs: u32) -> BoxedStrategy<COp> {
    let k = prop_oneof![1 => Just(0u16), 3 => 1u16..=130, 1 => crate::gen::select(vec![32u16, 63, 64, 65, 128, 1024, 1088]), 2 => 0u16..=3000, 1 => 0u16..=65535];
    prop_oneof![
        10 => hist::size(max_abs).prop_map(COp::Update),
        1 => Just(COp::UpdateNull),
        3 => k.clone().prop_map(COp::Finalize),
        5 => (gen::position_lattice(), k).prop_map(|(s, k)| COp::FinalizeSeek(s, k)),
        1 => gen::position_lattice().prop_map(COp::FinalizeNullZero),
        2 => Just(COp::Reset),
        1 => Just(COp::Copy),
        1 => Just(COp::Swap),
    ]
    .boxed()
}

pub fn mask_strategy() -> BoxedStrategy<Level> {
    let av: Vec<Level> = ALL_LEVELS.iter().copied().filter(|l| l.cpu_has()).collect();
    (0usize..av.len()).prop_map(move |i| av[i]).boxed()
}

pub fn strategy(tier: Tier) -> BoxedStrategy<Case> {
    let budget: u32 = tier.pick(256 * 1024, 4 * 1024 * 1024);
    let max_ops = tier.pick(30usize, 100usize);
    let max_abs = tier.pick(70_000u32, 800_000u32);
    (variant_strategy(), mask_strategy(), init_strategy(), gen::content(), prop::collection::vec(op_strategy(max_abs), 0..=max_ops))
        .prop_map(move |(variant, mask, init, content, ops)| Case { variant, mask, init, content, budget, ops })
        .boxed()
}

/// Few, long operations: single blake3_hasher_update calls of 64 KiB .. 12 MiB after odd prefixes, long outputs.
fn large_strategy(tier: Tier) -> BoxedStrategy<Case> {
    use hist::Size;
    let max = tier.pick(6u32 << 20, 12u32 << 20);
    let big = prop_oneof![
        3 => (6u32..=13, -3i32..=3, any::<bool>()).prop_map(|(j, d, x)| (((1024u32 << j) as i32) + d * if x { 1 } else { 1024 }) as u32),
        2 => 65_536u32..=1_200_000,
        2 => (1u32 << 20)..=max,
    ];
    let small = prop_oneof![2 => 0u32..=70, 2 => 0u32..=3000, 1 => (0u32..=70).prop_map(|c| c * 1024), 2 => 0u32..=70_000];
    let step = (small, big, 0u8..6, gen::position_lattice(), any::<u16>()).prop_map(|(pre, sz, tail, seek, k)| {
        let mut v = vec![COp::Update(Size::Abs(pre)), COp::Update(Size::Abs(sz))];
        match tail {
            0 => v.push(COp::Finalize(64)),
            1 => v.push(COp::FinalizeSeek(seek, k)),
            2 => {
                v.push(COp::Finalize(32));
                v.push(COp::Reset);
            }
            3 => v.push(COp::Copy),
            _ => {}
        }
        v
    });
    (variant_strategy(), mask_strategy(), init_strategy(), gen::content(), prop::collection::vec(step, 1..=3))
        .prop_map(|(variant, mask, init, content, steps)| {
            let mut ops: Vec<COp> = steps.into_iter().flatten().collect();
            ops.push(COp::Finalize(64));
            Case { variant, mask, init, content, budget: 40 << 20, ops }
        })
        .boxed()
}

/// size_t arithmetic beyond 32 bits: one blake3_hasher_update of `len` zero bytes (lazily mapped
/// zero pages) after a prefix, and a large finalize.
#[derive(Clone, Debug, Serialize, Deserialize)]
pub struct HugeC {
    pub variant: u8,
    pub mask: Level,
    pub prefix: u32,
    pub len: u64,
    pub out_len: u64,
}

pub fn check_huge(c: &HugeC) -> Result<(), String> {
    if !c.mask.cpu_has() {
        return Ok(());
    }
    let api = api_of(c.variant);
    unsafe { *api.features = cshim::mask_for(c.mask) };
    let pre = Content { kind: 3, seed: c.len }.expand(c.prefix as usize);
    let mut all = vec![0u8; c.prefix as usize + c.len as usize];
    all[..pre.len()].copy_from_slice(&pre);
    let mut h = Box::new(CHasher::zeroed());
    let mut out = vec![0u8; c.out_len as usize];
    unsafe {
        (api.init)(&mut *h);
        (api.update)(&mut *h, all.as_ptr() as *const c_void, c.prefix as usize);
        (api.update)(&mut *h, all[c.prefix as usize..].as_ptr() as *const c_void, c.len as usize);
        (api.finalize_seek)(&*h, 5, out.as_mut_ptr(), out.len());
        *api.features = cshim::F_UNDEFINED;
    }
    let root = b3spec::root(&b3spec::KeyFlags::hash(), &all);
    let what = format!("{}: one update of {} bytes after {} bytes, {} output bytes from offset 5", api.name, c.len, c.prefix, c.out_len);
    if c.out_len <= 2_000_000 {
        return eq_bytes(&what, &out, &root.xof(5, c.out_len as usize));
    }
    // a very long output (size_t arithmetic beyond 32 bits in the output path): compared in windows, at the start,
    // on both sides of every multiple of 2^32 bytes and of 2^16 blocks inside it, and at the end
    let n = c.out_len;
    let mut starts: Vec<u64> = vec![0, 4_194_304 - 100, n.saturating_sub(400)];
    let mut m = 1u64 << 32;
    while m < n {
        starts.push(m - 300);
        starts.push(m - 5 - 64);
        m += 1u64 << 32;
    }
    for st in starts {
        let st = st.min(n.saturating_sub(1));
        let w = core::cmp::min(700, n - st) as usize;
        eq_bytes(&format!("{} [window at output byte {}]", what, st), &out[st as usize..st as usize + w], &root.xof(5 + st, w))?;
    }
    Ok(())
}

fn huge_items(tier: Tier) -> Box<dyn Iterator<Item = HugeC>> {
    // 2^31+1024 after a 1-byte prefix, and exactly 2^32 bytes in one call (size_t helpers at the 32-bit boundary)
    let mut v = vec![HugeC { variant: 0, mask: Level::Avx512, prefix: 1, len: (1u64 << 31) + 1024, out_len: 200_000 }, HugeC { variant: 1, mask: Level::Avx512, prefix: 0, len: 1u64 << 32, out_len: 64 }, HugeC { variant: 0, mask: Level::Avx512, prefix: 0, len: 70_000, out_len: (1u64 << 32) + 197 }];
    if tier == Tier::Thorough {
        v.push(HugeC { variant: 1, mask: Level::Avx512, prefix: 0, len: (1u64 << 32) + 1, out_len: 1_000_000 });
        v.push(HugeC { variant: 0, mask: Level::Avx2, prefix: 1025, len: 1u64 << 32, out_len: 64 });
        v.push(HugeC { variant: 0, mask: Level::Sse41, prefix: 3 * 1024, len: (1u64 << 32) + 5 * 1024 + 3, out_len: 64 });
    }
    Box::new(v.into_iter())
}

pub fn subs() -> Vec<Box<dyn DynSub>> {
    vec![
        Box::new(crate::runner::EnumSub::<HugeC> {
            name: "c-huge",
            rule: "enumeration: one blake3_hasher_update of 2^31+1024 bytes and one of exactly 2^32 bytes (quick) / 2^32+1, 2^32, 2^32+5123 bytes (thorough) after a short prefix, and finalize_seek of up to 1 MB of output, and one finalize_seek of 2^32+197 output bytes (compared in windows); vs spec (size_t arithmetic beyond 32 bits)",
            items: huge_items,
            classify: |c| Classes::new(true).tag(c.len >= (1u64 << 32), "update>=2^32-bytes").tag(c.out_len >= 100_000, "out_len>=100000"),
            check: check_huge,
            exhaustive: false,
            known: None,
            crumb: true,
        }),
        Box::new(PropSub::<Case> {
            name: "c-large-ops",
            rule: "proptest: build x feature mask x initialiser x 1-3 steps of (short odd prefix, then ONE blake3_hasher_update of 64 KiB-6 MiB (quick) / 12 MiB (thorough): 2^j chunks +-3 bytes/chunks, or random; then finalize / finalize_seek(lattice, k<=65535) / reset / struct copy); same oracles as c-api-histories",
            cases: (160, 6_000),
            strategy: large_strategy,
            classify,
            check,
            known: None,
            crumb: true,
        }),
        Box::new(PropSub::<Case> {
        name: "c-api-histories",
        rule: "proptest: (library build: assembly | C intrinsics | the same two with -DNDEBUG | C intrinsics with BLAKE3_NO_SSE41 / NO_AVX512 / NO_AVX512+NO_AVX2 / all NO_* / NO_SSE2) x (g_cpu_features mask: portable/SSE2/SSE4.1/AVX2/AVX-512) x (init | init_keyed | init_derive_key | init_derive_key_raw with NUL/invalid UTF-8) x 0-30 ops of update (sizes resolved against the running total) / update(NULL,0) / finalize(k) / finalize_seek(seek from the 64*K lattice, k<=65535) / finalize_seek(NULL,0) / reset / struct copy / swap; every output vs spec S[seek..seek+k] and vs the Rust crate, hasher bytes compared across finalize, reset hasher in lockstep with a fresh twin; non-trivial = >=2 updates with >1 chunk, or seek%64!=0, or a reset",
        cases: (24_000, 200_000),
        strategy,
        classify,
        check,
        known: None,
        crumb: true,
    })]
}
// (c-huge comes first so that its long single case overlaps with the histories of the other shards)
