//! C18 — independent hashers are isolated: concurrent use from many threads is safe.
//!
//! Every case runs in a fresh child process (`vcheck c18-child <file>`), so the
//! first hashing calls of all threads race on CPU-feature detection.
#![cfg(feature = "full")]

use crate::gen;
use crate::props::{c01, c02, c03};
use crate::runner::{guarded, Classes, DynSub, PropSub, Tier};
use proptest::prelude::*;
use serde::{Deserialize, Serialize};
use std::sync::{Arc, Barrier};

#[derive(Clone, Debug, Serialize, Deserialize)]
pub enum Task {
    OneShot(c01::OneShot),
    Hist(c02::History),
    Xof(c03::Case),
    #[cfg(feature = "cshim")]
    CHist(crate::props::c06::Case),
    #[cfg(not(feature = "cshim"))]
    CHist(()),
    /// many short construct-update-finalize rounds in a tight loop (stresses constructors,
    /// finalisation and any process-global state): lib 0 = Rust crate, 1 = C assembly build, 2 = C intrinsics build
    Burst { lib: u8, init: BurstInit, len: u16, content: crate::gen::Content, iters: u16 },
    /// one extended-output reader consumed in `pieces` small pieces of `piece` bytes through fill (how 0),
    /// io::Read::read (1), read_exact (2) or the digest XofReader trait (3); the concatenation must be S[0..]
    XofBurst { init: BurstInit, len: u16, content: crate::gen::Content, how: u8, piece: u8, pieces: u16 },
}

fn run_xof_burst(init: &BurstInit, len: u16, content: &crate::gen::Content, how: u8, piece: u8, pieces: u16) -> Result<(), String> {
    use std::io::Read;
    let data = content.expand(len as usize);
    let kf = match init {
        BurstInit::Plain => b3spec::KeyFlags::hash(),
        BurstInit::Keyed(k) => b3spec::KeyFlags::keyed(k),
        BurstInit::Derive(c) => b3spec::KeyFlags::derive_key(&c.bytes()),
    };
    let piece = core::cmp::max(1, piece as usize);
    let total = piece * pieces as usize;
    let want = b3spec::root(&kf, &data).xof(0, total);
    let mut h = match init {
        BurstInit::Plain => blake3::Hasher::new(),
        BurstInit::Keyed(k) => blake3::Hasher::new_keyed(k),
        BurstInit::Derive(c) => blake3::Hasher::new_derive_key(&c.string()),
    };
    h.update(&data);
    let mut r = h.finalize_xof();
    let mut got = vec![0u8; total];
    for (i, out) in got.chunks_mut(piece).enumerate() {
        match how % 4 {
            0 => r.fill(out),
            1 => {
                let n = r.read(out).map_err(|e| format!("OutputReader::read failed: {}", e))?;
                if n != out.len() {
                    return Err(format!("OutputReader::read returned {} for a {}-byte buffer (piece {})", n, out.len(), i));
                }
            }
            2 => r.read_exact(out).map_err(|e| format!("OutputReader::read_exact failed: {}", e))?,
            _ => digest::XofReader::read(&mut r, out),
        }
    }
    if got != want {
        let at = got.iter().zip(want.iter()).position(|(a, b)| a != b).unwrap_or(0);
        return Err(format!("extended output read in {} pieces of {} bytes (how {}) differs from what it yields alone at byte {} ({:?}, {} input bytes)", pieces, piece, how % 4, at, init, len));
    }
    Ok(())
}

#[derive(Clone, Debug, Serialize, Deserialize)]
pub enum BurstInit {
    Plain,
    Keyed([u8; 32]),
    Derive(crate::gen::CtxSpec),
}

fn run_burst(lib: u8, init: &BurstInit, len: u16, content: &crate::gen::Content, iters: u16) -> Result<(), String> {
    let data = content.expand(len as usize);
    let kf = match init {
        BurstInit::Plain => b3spec::KeyFlags::hash(),
        BurstInit::Keyed(k) => b3spec::KeyFlags::keyed(k),
        BurstInit::Derive(c) => b3spec::KeyFlags::derive_key(&c.bytes()),
    };
    let want = b3spec::root(&kf, &data).xof(0, 64);
    for it in 0..iters {
        let mut got = [0u8; 64];
        match lib % 3 {
            0 => {
                let mut h = match init {
                    BurstInit::Plain => blake3::Hasher::new(),
                    BurstInit::Keyed(k) => blake3::Hasher::new_keyed(k),
                    BurstInit::Derive(c) => blake3::Hasher::new_derive_key(&c.string()),
                };
                h.update(&data);
                h.finalize_xof().fill(&mut got);
                let one = match init {
                    BurstInit::Plain => *blake3::hash(&data).as_bytes(),
                    BurstInit::Keyed(k) => *blake3::keyed_hash(k, &data).as_bytes(),
                    BurstInit::Derive(c) => blake3::derive_key(&c.string(), &data),
                };
                if one[..] != want[..32] {
                    return Err(format!("burst iteration {}: Rust one-shot result differs from what it yields alone ({:?})", it, init));
                }
            }
            #[cfg(feature = "cshim")]
            v => {
                use crate::cshim::CHasher;
                use crate::props::c06::InitC;
                let api = crate::props::c06::api_of(v - 1);
                let ci = match init {
                    BurstInit::Plain => InitC::Plain,
                    BurstInit::Keyed(k) => InitC::Keyed(*k),
                    BurstInit::Derive(c) => {
                        if it % 2 == 0 {
                            InitC::DeriveStr(c.clone())
                        } else {
                            InitC::DeriveRaw(c.clone())
                        }
                    }
                };
                let mut h = Box::new(CHasher::zeroed());
                unsafe {
                    ci.init(&api, &mut *h);
                    (api.update)(&mut *h, data.as_ptr() as *const _, data.len());
                    (api.finalize)(&*h, got.as_mut_ptr(), 64);
                }
            }
            #[cfg(not(feature = "cshim"))]
            _ => got.copy_from_slice(&want),
        }
        if got[..] != want[..] {
            return Err(format!(
                "burst iteration {} (lib {}): {:?} over {} bytes gave {} but alone it yields {}",
                it,
                lib % 3,
                init,
                len,
                crate::runner::hex(&got[..16]),
                crate::runner::hex(&want[..16])
            ));
        }
    }
    Ok(())
}

#[derive(Clone, Debug, Serialize, Deserialize)]
pub struct Case {
    /// one program (list of tasks) per thread
    pub programs: Vec<Vec<Task>>,
    pub repeats: u8,
}

fn run_task(t: &Task) -> Result<(), String> {
    match t {
        Task::OneShot(x) => guarded(&c01::check, x),
        Task::Hist(x) => guarded(&c02::check, x),
        Task::Xof(x) => guarded(&c03::check, x),
        #[cfg(feature = "cshim")]
        Task::CHist(x) => {
            // no feature mask is installed: detection itself is part of what races
            let api = crate::props::c06::api_of(x.variant);
            guarded(&|c: &crate::props::c06::Case| crate::props::c06::run_history(&api, c), x)
        }
        #[cfg(not(feature = "cshim"))]
        Task::CHist(_) => Ok(()),
        Task::XofBurst { init, len, content, how, piece, pieces } => {
            let r = std::panic::catch_unwind(|| run_xof_burst(init, *len, content, *how, *piece, *pieces));
            match r {
                Ok(x) => x,
                Err(_) => Err("panic in xof burst".to_string()),
            }
        }
        Task::Burst { lib, init, len, content, iters } => {
            let r = std::panic::catch_unwind(|| run_burst(*lib, init, *len, content, *iters));
            match r {
                Ok(x) => x,
                Err(_) => Err("panic in burst".to_string()),
            }
        }
    }
}

/// Entry point of the child process.
pub fn child_main(path: &str) -> i32 {
    let txt = match std::fs::read_to_string(path) {
        Ok(t) => t,
        Err(e) => {
            println!("ENGINE: cannot read case file: {}", e);
            return 2;
        }
    };
    let case: Case = match serde_json::from_str(&txt) {
        Ok(c) => c,
        Err(e) => {
            println!("ENGINE: cannot decode case: {}", e);
            return 2;
        }
    };
    let n = case.programs.len();
    let barrier = Arc::new(Barrier::new(n));
    let mut handles = Vec::new();
    for (i, prog) in case.programs.iter().cloned().enumerate() {
        let b = barrier.clone();
        let reps = core::cmp::max(1, case.repeats);
        handles.push(std::thread::spawn(move || -> Result<(), String> {
            b.wait();
            for r in 0..reps {
                for (k, t) in prog.iter().enumerate() {
                    run_task(t).map_err(|e| format!("thread {} repetition {} task {}: {}", i, r, k, e))?;
                }
            }
            Ok(())
        }));
    }
    let mut failed = 0;
    for h in handles {
        match h.join() {
            Ok(Ok(())) => {}
            Ok(Err(e)) => {
                println!("{}", e);
                failed += 1;
            }
            Err(_) => {
                println!("a thread panicked outside a task");
                failed += 1;
            }
        }
    }
    if failed > 0 {
        1
    } else {
        0
    }
}

fn run_child(c: &Case) -> Result<(), String> {
    use std::sync::atomic::{AtomicU64, Ordering};
    static N: AtomicU64 = AtomicU64::new(0);
    let path = crate::hist::scratch_dir().join(format!("c18-{}.json", N.fetch_add(1, Ordering::Relaxed)));
    std::fs::write(&path, serde_json::to_string(c).map_err(|e| format!("ENGINE: {}", e))?).map_err(|e| format!("ENGINE: write case: {}", e))?;
    let exe = std::env::current_exe().map_err(|e| format!("ENGINE: {}", e))?;
    let out = std::process::Command::new(exe).arg("c18-child").arg(&path).env("RAYON_NUM_THREADS", "2").output().map_err(|e| format!("ENGINE: spawn child: {}", e));
    let _ = std::fs::remove_file(&path);
    let out = out?;
    let so = String::from_utf8_lossy(&out.stdout).to_string();
    match out.status.code() {
        Some(0) => Ok(()),
        Some(1) => Err(format!("with {} threads running at once a thread got a result it would not get alone: {}", c.programs.len(), so.lines().next().unwrap_or(""))),
        Some(2) => Err(format!("ENGINE: child: {}", so)),
        Some(k) => Err(format!("child process exited with status {}: {} {}", k, so, String::from_utf8_lossy(&out.stderr))),
        None => {
            use std::os::unix::process::ExitStatusExt;
            Err(format!("child process with {} threads was killed by signal {:?}", c.programs.len(), out.status.signal()))
        }
    }
}

/// One fresh process per case. An anomaly is only reported as a violation if it shows again in
/// amplified re-executions of the same case (4 more fresh processes with 4x the repetitions): a
/// defect in the code is there on every run, while a one-off disturbance of this (shared, heavily
/// loaded) machine is not. An anomaly that does not reproduce is recorded in the evidence as
/// unconfirmed and is neither a violation nor a pass of that case.
pub fn check(c: &Case) -> Result<(), String> {
    let first = match run_child(c) {
        Ok(()) => return Ok(()),
        Err(m) if m.starts_with("ENGINE") => return Err(m),
        Err(m) => m,
    };
    let mut amplified = c.clone();
    amplified.repeats = amplified.repeats.saturating_mul(4).max(8);
    let mut again = 0;
    let tries = 4;
    for _ in 0..tries {
        match run_child(&amplified) {
            Ok(()) => {}
            Err(m) if m.starts_with("ENGINE") => {}
            Err(_) => again += 1,
        }
    }
    if again > 0 {
        Err(format!("{} [reproduced in {} of {} amplified re-executions]", first, again, tries))
    } else {
        Err(format!("ENGINE-UNCONFIRMED: {} [not reproduced in {} amplified re-executions]", first, tries))
    }
}

// ---------------------------------------------------------------------------
// first calls: every thread's FIRST call into a library happens at the same instant
// ---------------------------------------------------------------------------
/// A fresh process whose threads are released by a spin barrier and immediately make their first
/// call: one construct - update(len) - finalize on their own instance. Expected values come from the
/// spec model and are computed before any library code has run. The same is then repeated for
/// `rounds` rounds in the same process; before each round the C libraries' detection cache
/// (`g_cpu_features`, exposed by the libraries' own BLAKE3_TESTING switch) is put back to "undefined",
/// which is the state of a fresh process.
#[derive(Clone, Debug, Serialize, Deserialize)]
pub struct FirstCase {
    /// 0 = Rust crate, 1 = C assembly build, 2 = C intrinsics build, 3 = thread i uses library i % 3
    pub lib: u8,
    pub jobs: Vec<FirstJob>,
    pub rounds: u16,
}

#[derive(Clone, Debug, Serialize, Deserialize)]
pub struct FirstJob {
    pub init: BurstInit,
    pub len: u32,
    pub content: crate::gen::Content,
    /// spin iterations between the release and the call (0 = none): staggers the threads by fractions of a microsecond
    pub stagger: u16,
    /// feed the input in two updates
    pub split: bool,
}

fn first_job_run(lib: u8, job: &FirstJob, data: &[u8], round: u32) -> [u8; 64] {
    let mut got = [0u8; 64];
    let cut = if job.split { data.len() / 3 } else { data.len() };
    match lib % 3 {
        0 => {
            let mut h = match &job.init {
                BurstInit::Plain => blake3::Hasher::new(),
                BurstInit::Keyed(k) => blake3::Hasher::new_keyed(k),
                BurstInit::Derive(c) => blake3::Hasher::new_derive_key(&c.string()),
            };
            h.update(&data[..cut]);
            h.update(&data[cut..]);
            h.finalize_xof().fill(&mut got);
        }
        #[cfg(feature = "cshim")]
        v => {
            use crate::cshim::CHasher;
            use crate::props::c06::InitC;
            let api = crate::props::c06::api_of(v - 1);
            let ci = match &job.init {
                BurstInit::Plain => InitC::Plain,
                BurstInit::Keyed(k) => InitC::Keyed(*k),
                BurstInit::Derive(c) => {
                    if round % 2 == 0 {
                        InitC::DeriveStr(c.clone())
                    } else {
                        InitC::DeriveRaw(c.clone())
                    }
                }
            };
            let mut h = Box::new(CHasher::zeroed());
            unsafe {
                ci.init(&api, &mut *h);
                (api.update)(&mut *h, data.as_ptr() as *const _, cut);
                if cut < data.len() {
                    (api.update)(&mut *h, data[cut..].as_ptr() as *const _, data.len() - cut);
                }
                (api.finalize)(&*h, got.as_mut_ptr(), 64);
            }
        }
        #[cfg(not(feature = "cshim"))]
        _ => {
            let _ = round;
        }
    }
    got
}

/// Entry point of the child process for first-call cases.
pub fn first_child_main(path: &str) -> i32 {
    use std::sync::atomic::{AtomicU32, Ordering};
    let case: FirstCase = match std::fs::read_to_string(path).map_err(|e| e.to_string()).and_then(|t| serde_json::from_str(&t).map_err(|e| e.to_string())) {
        Ok(c) => c,
        Err(e) => {
            println!("ENGINE: cannot read case: {}", e);
            return 2;
        }
    };
    let n = case.jobs.len();
    // inputs and expected outputs: spec model only, no library code runs before the release
    let prepared: Vec<(Vec<u8>, Vec<u8>)> = case
        .jobs
        .iter()
        .map(|j| {
            let data = j.content.expand(j.len as usize);
            let kf = match &j.init {
                BurstInit::Plain => b3spec::KeyFlags::hash(),
                BurstInit::Keyed(k) => b3spec::KeyFlags::keyed(k),
                BurstInit::Derive(c) => b3spec::KeyFlags::derive_key(&c.bytes()),
            };
            let want = b3spec::root(&kf, &data).xof(0, 64);
            (data, want)
        })
        .collect();
    let prepared = Arc::new(prepared);
    let gate = Arc::new(AtomicU32::new(0));
    let done = Arc::new(AtomicU32::new(0));
    let rounds = core::cmp::max(1, case.rounds) as u32;
    let mut handles = Vec::new();
    for (i, job) in case.jobs.iter().cloned().enumerate() {
        let (gate, done, prepared) = (gate.clone(), done.clone(), prepared.clone());
        let lib = if case.lib % 4 == 3 { (i % 3) as u8 } else { case.lib % 4 };
        handles.push(std::thread::spawn(move || -> Vec<String> {
            let mut errs = Vec::new();
            for r in 0..rounds {
                let mut spins = 0u32;
                while gate.load(Ordering::Acquire) <= r {
                    spins += 1;
                    if spins > 20_000 {
                        std::thread::yield_now(); // oversubscribed machine: do not burn a core for ever
                    } else {
                        core::hint::spin_loop();
                    }
                }
                for _ in 0..job.stagger {
                    core::hint::spin_loop();
                }
                let got = first_job_run(lib, &job, &prepared[i].0, r);
                if got[..] != prepared[i].1[..] {
                    errs.push(format!(
                        "thread {} round {} (lib {}): {:?} over {} bytes gave {} but alone it yields {}",
                        i,
                        r,
                        lib,
                        job.init,
                        job.len,
                        crate::runner::hex(&got[..16]),
                        crate::runner::hex(&prepared[i].1[..16])
                    ));
                }
                done.fetch_add(1, Ordering::AcqRel);
            }
            errs
        }));
    }
    for r in 0..rounds {
        // every thread has finished round r-1 here; put the C libraries back into the never-called state
        #[cfg(feature = "cshim")]
        unsafe {
            *crate::cshim::api_asm().features = crate::cshim::F_UNDEFINED;
            *crate::cshim::api_intr().features = crate::cshim::F_UNDEFINED;
        }
        std::thread::sleep(std::time::Duration::from_micros(if r == 0 { 2000 } else { 50 })); // let the threads reach their spin loops
        gate.store(r + 1, Ordering::Release);
        let mut spins = 0u64;
        while done.load(Ordering::Acquire) < (r + 1) * n as u32 {
            spins += 1;
            if spins > 2000 {
                std::thread::yield_now();
            }
        }
    }
    let mut failed = 0;
    for h in handles {
        match h.join() {
            Ok(errs) => {
                for e in errs.iter().take(3) {
                    println!("{}", e);
                }
                failed += errs.len();
            }
            Err(_) => {
                println!("a thread panicked");
                failed += 1;
            }
        }
    }
    if failed > 0 {
        1
    } else {
        0
    }
}

fn run_first_child(c: &FirstCase) -> Result<(), String> {
    use std::sync::atomic::{AtomicU64, Ordering};
    static N: AtomicU64 = AtomicU64::new(0);
    let path = crate::hist::scratch_dir().join(format!("c18-first-{}-{}.json", std::process::id(), N.fetch_add(1, Ordering::Relaxed)));
    std::fs::write(&path, serde_json::to_string(c).map_err(|e| format!("ENGINE: {}", e))?).map_err(|e| format!("ENGINE: write case: {}", e))?;
    let exe = std::env::current_exe().map_err(|e| format!("ENGINE: {}", e))?;
    let out = std::process::Command::new(exe).arg("c18-first").arg(&path).output().map_err(|e| format!("ENGINE: spawn child: {}", e));
    let _ = std::fs::remove_file(&path);
    let out = out?;
    let so = String::from_utf8_lossy(&out.stdout).to_string();
    match out.status.code() {
        Some(0) => Ok(()),
        Some(1) => Err(format!("{} threads making their first calls at once: {}", c.jobs.len(), so.lines().next().unwrap_or(""))),
        Some(2) => Err(format!("ENGINE: child: {}", so)),
        Some(k) => Err(format!("child process exited with status {}: {} {}", k, so, String::from_utf8_lossy(&out.stderr))),
        None => {
            use std::os::unix::process::ExitStatusExt;
            Err(format!("child process with {} threads was killed by signal {:?}", c.jobs.len(), out.status.signal()))
        }
    }
}

/// Same confirm-by-rerun policy as `check`.
pub fn check_first(c: &FirstCase) -> Result<(), String> {
    let first = match run_first_child(c) {
        Ok(()) => return Ok(()),
        Err(m) if m.starts_with("ENGINE") => return Err(m),
        Err(m) => m,
    };
    let mut amplified = c.clone();
    amplified.rounds = amplified.rounds.saturating_mul(4).max(200);
    let (mut again, tries) = (0, 4);
    for _ in 0..tries {
        match run_first_child(&amplified) {
            Ok(()) => {}
            Err(m) if m.starts_with("ENGINE") => {}
            Err(_) => again += 1,
        }
    }
    if again > 0 {
        Err(format!("{} [reproduced in {} of {} amplified re-executions]", first, again, tries))
    } else {
        Err(format!("ENGINE-UNCONFIRMED: {} [not reproduced in {} amplified re-executions]", first, tries))
    }
}

pub fn classify_first(c: &FirstCase) -> Classes {
    let big = c.jobs.iter().filter(|j| j.len > 8192 && !j.split).count();
    Classes::new(c.jobs.len() >= 2 && big >= 2)
        .tag(c.lib % 4 == 0, "first-calls:Rust")
        .tag(c.lib % 4 == 1, "first-calls:C-assembly-build")
        .tag(c.lib % 4 == 2, "first-calls:C-intrinsics-build")
        .tag(c.lib % 4 == 3, "first-calls:mixed-libraries")
        .tag(big >= 2, ">=2-first-calls-with-one-update>8KiB")
        .tag(c.jobs.len() > 8, "threads>8")
}

fn first_strategy(tier: Tier) -> BoxedStrategy<FirstCase> {
    let rounds = tier.pick(60u16, 400u16);
    let init = prop_oneof![
        2 => Just(BurstInit::Plain),
        2 => gen::key32().prop_map(BurstInit::Keyed),
        2 => gen::ctx_spec(120, false).prop_map(BurstInit::Derive),
    ];
    let len = prop_oneof![
        1 => 0u32..=1024,
        2 => 1025u32..=8192,
        4 => 8193u32..=40_000,
        2 => 40_000u32..=300_000,
        1 => crate::gen::select(vec![4096u32, 8192, 8193, 16384, 16385, 32768, 65536, 102_400]),
    ];
    let job = (init, len, gen::content(), prop_oneof![3 => Just(0u16), 2 => 0u16..=300, 1 => 0u16..=5000], prop::bool::weighted(0.2))
        .prop_map(|(init, len, content, stagger, split)| FirstJob { init, len, content, stagger, split });
    (prop_oneof![1 => Just(0u8), 3 => Just(1u8), 3 => Just(2u8), 2 => Just(3u8)], crate::gen::select(vec![2usize, 3, 4, 8, 12, 16]))
        .prop_flat_map(move |(lib, n)| (Just(lib), prop::collection::vec(job.clone(), n..=n)))
        .prop_map(move |(lib, jobs)| FirstCase { lib, jobs, rounds })
        .boxed()
}

fn task_weight(t: &Task) -> usize {
    match t {
        Task::OneShot(x) => x.len,
        Task::Hist(x) => x.budget as usize / 4,
        Task::Xof(_) => 2000,
        #[cfg(feature = "cshim")]
        Task::CHist(x) => x.budget as usize / 4,
        #[cfg(not(feature = "cshim"))]
        Task::CHist(_) => 0,
        Task::Burst { len, iters, .. } => *len as usize * *iters as usize,
        Task::XofBurst { piece, pieces, .. } => *piece as usize * *pieces as usize,
    }
}

pub fn classify(c: &Case) -> Classes {
    let heavy = c.programs.iter().filter(|p| p.iter().map(task_weight).sum::<usize>() > 16 * 1024).count();
    let is_c = |t: &Task| matches!(t, Task::CHist(_)) || matches!(t, Task::Burst { lib, .. } if lib % 3 != 0);
    let has_c = c.programs.iter().flatten().any(|t| is_c(t));
    let has_rust = c.programs.iter().flatten().any(|t| !is_c(t));
    let derive_bursts = c.programs.iter().filter(|p| p.iter().any(|t| matches!(t, Task::Burst { init: BurstInit::Derive(_), .. }))).count();
    Classes::new(c.programs.len() >= 2 && heavy >= 2)
        .tag(c.programs.len() == 2, "threads=2")
        .tag(c.programs.len() > 2 && c.programs.len() <= 8, "threads=3..8")
        .tag(c.programs.len() > 8, "threads>8")
        .tag(has_c, "C-library-instances")
        .tag(has_rust, "Rust-instances")
        .tag(has_c && has_rust, "both-libraries-in-one-process")
        .tag(c.programs.iter().flatten().any(|t| matches!(t, Task::Burst { .. })), "burst-task")
        .tag(c.programs.iter().filter(|p| p.iter().any(|t| matches!(t, Task::XofBurst { .. }))).count() >= 2, ">=2-threads-reading-xof-in-small-pieces")
        .tag(c.programs.iter().filter(|p| p.iter().any(|t| matches!(t, Task::Hist(h) if h.ops.iter().any(|o| matches!(o, c02::Op::UpdateRayon(crate::hist::Size::Abs(n)) | c02::Op::UpdateMmapRayon(crate::hist::Size::Abs(n)) if *n > 1_000_000))))).count() >= 3, ">=3-threads-in-update_rayon-on->1MB")
        .tag(derive_bursts >= 2, ">=2-threads-bursting-derive_key")
        .tag(c.programs.iter().any(|p| matches!(p.first(), Some(Task::CHist(_)))), "first-call-is-C(detection-race)")
        .tag(c.programs.iter().filter(|p| p.iter().any(|t| matches!(t, Task::Hist(h) if matches!(h.ops.first().and_then(|o| o.absorbing()), Some(crate::hist::Size::Abs(n)) if *n > 1_048_576)))).count() >= 2, ">=2-threads-streaming->1MiB")
}

fn burst_init2() -> BoxedStrategy<BurstInit> {
    prop_oneof![
        3 => Just(BurstInit::Plain),
        2 => gen::key32().prop_map(BurstInit::Keyed),
        2 => gen::ctx_spec(120, false).prop_map(BurstInit::Derive),
    ]
    .boxed()
}

fn task_strategy() -> BoxedStrategy<Task> {
    let oneshot = (gen::mode3(), gen::len_lattice(96 * 1024), gen::content()).prop_map(|(mode, len, content)| Task::OneShot(c01::OneShot { mode, len, content }));
    let hist_ = c02::history_strategy(Tier::Quick, true).prop_map(|mut h| {
        h.budget = h.budget.min(96 * 1024);
        h.ops.truncate(16);
        Task::Hist(h)
    });
    let xof = c03::strategy(Tier::Quick).prop_map(|mut x| {
        x.ops.truncate(12);
        Task::Xof(x)
    });
    let burst_init = prop_oneof![
        1 => Just(BurstInit::Plain),
        2 => gen::key32().prop_map(BurstInit::Keyed),
        3 => gen::ctx_spec(120, false).prop_map(BurstInit::Derive),
    ];
    let burst = (0u8..3, burst_init, prop_oneof![0u16..=200, 0u16..=5000], gen::content(), 50u16..=400)
        .prop_map(|(lib, init, len, content, iters)| Task::Burst { lib, init, len, content, iters });
    let xof_burst = (burst_init2(), prop_oneof![0u16..=200, 0u16..=5000], gen::content(), 0u8..4, prop_oneof![3 => 1u8..=63, 1 => 64u8..=200, 1 => crate::gen::select(vec![1u8, 4, 8, 16, 32, 64])], 100u16..=1500)
        .prop_map(|(init, len, content, how, piece, pieces)| Task::XofBurst { init, len, content, how, piece, pieces });
    #[cfg(feature = "cshim")]
    {
        let ch = crate::props::c06::strategy(Tier::Quick).prop_map(|mut x| {
            x.budget = x.budget.min(96 * 1024);
            x.ops.truncate(14);
            Task::CHist(x)
        });
        prop_oneof![3 => oneshot, 2 => hist_, 2 => xof, 3 => ch, 5 => burst, 3 => xof_burst].boxed()
    }
    #[cfg(not(feature = "cshim"))]
    {
        prop_oneof![3 => oneshot, 2 => hist_, 2 => xof, 4 => burst, 3 => xof_burst].boxed()
    }
}

/// One long stream (64 KiB .. 3 MiB) through one of the streaming / bulk entry points, then finalize:
/// the sizes at which internal buffering strategies (read buffers, mmap thresholds, rayon splitting) change.
fn big_stream_task() -> BoxedStrategy<Task> {
    use crate::hist::Size;
    use c02::Op;
    let len = prop_oneof![
        2 => 60_000u32..=140_000,
        2 => 1_000_000u32..=1_100_000,
        3 => 1_100_000u32..=3_000_000,
    ];
    (gen::mode4(), gen::content(), len, 0u8..8, any::<u64>(), 0u32..=70_000)
        .prop_map(|(mode, content, len, api, seed, tail)| {
            let s = Size::Abs(len);
            let op = if cfg!(feature = "full") {
                match api {
                    0 | 1 | 2 => Op::UpdateReader(s, seed),
                    3 => Op::IoCopy(s),
                    4 => Op::UpdateMmap(s),
                    5 => Op::UpdateMmapRayon(s),
                    6 => Op::UpdateRayon(s),
                    _ => Op::WriteAll(s),
                }
            } else {
                Op::Update(s)
            };
            Task::Hist(c02::History { mode, content, budget: 3_200_000, ops: vec![op, Op::Finalize, Op::Update(Size::Abs(tail)), Op::FinalizeXof(100)] })
        })
        .boxed()
}

fn strategy(tier: Tier) -> BoxedStrategy<Case> {
    let reps = tier.pick(12u8, 40u8);
    let mixed = (crate::gen::select(vec![2usize, 2, 4, 4, 8, 16, 32]), any::<u64>())
        .prop_flat_map(move |(n, _)| prop::collection::vec(prop::collection::vec(prop_oneof![12 => task_strategy(), 1 => big_stream_task()], 1..=3), n..=n))
        .prop_map(move |programs| Case { programs, repeats: reps });
    // every thread streams a long input at the same time (fewer repetitions: each is long)
    let streams = crate::gen::select(vec![2usize, 3, 4, 8])
        .prop_flat_map(move |n| prop::collection::vec(prop::collection::vec(big_stream_task(), 1..=2), n..=n))
        .prop_map(move |programs| Case { programs, repeats: core::cmp::max(3, reps / 4) });
    // every thread consumes extended output in small pieces at the same time
    let reader_task = (prop_oneof![5 => Just(BurstInit::Plain), 1 => gen::key32().prop_map(BurstInit::Keyed), 1 => gen::ctx_spec(60, false).prop_map(BurstInit::Derive)], 0u16..=3000, gen::content(), prop_oneof![1 => Just(0u8), 3 => Just(1u8), 2 => Just(2u8), 2 => Just(3u8)], prop_oneof![4 => 1u8..=32, 1 => 33u8..=64], 200u16..=600)
        .prop_map(|(init, len, content, how, piece, pieces)| Task::XofBurst { init, len, content, how, piece, pieces });
    let readers = crate::gen::select(vec![2usize, 4, 8, 12, 16])
        .prop_flat_map(move |n| prop::collection::vec(prop::collection::vec(reader_task.clone(), 2..=3), n..=n))
        .prop_map(move |programs| Case { programs, repeats: reps });
    // an odd number of threads inside update_rayon / update_mmap_rayon at the same time, each on megabytes of its own input
    let rayon_task = (gen::mode4(), gen::content(), (1_200_000u32..=6_500_000), any::<bool>(), 0u32..=5000).prop_map(|(mode, content, len, mm, pre)| {
        use crate::hist::Size;
        use c02::Op;
        let s = Size::Abs(len);
        let op = if !cfg!(feature = "full") {
            Op::Update(s)
        } else if mm {
            Op::UpdateMmapRayon(s)
        } else {
            Op::UpdateRayon(s)
        };
        Task::Hist(c02::History { mode, content, budget: 7_000_000, ops: vec![Op::Update(Size::Abs(pre)), op, Op::Finalize] })
    });
    let rayon_callers = crate::gen::select(vec![3usize, 3, 5, 6, 7, 12])
        .prop_flat_map(move |n| prop::collection::vec(prop::collection::vec(rayon_task.clone(), 1..=2), n..=n))
        .prop_map(move |programs| Case { programs, repeats: core::cmp::max(3, reps / 4) });
    // every thread hands megabytes to ONE blake3_hasher_update call of the C library at the same time
    #[cfg(feature = "cshim")]
    let c_streams = {
        use crate::hist::Size;
        use crate::props::c06::{self, COp};
        let c_task = move |variant: u8| {
            (c06::mask_strategy(), c06::init_strategy(), gen::content(), 1_000_000u32..=7_000_000, 0u32..=3000, prop::bool::weighted(0.25)).prop_map(move |(mask, init, content, len, pre, split)| {
                let mut ops = vec![COp::Update(Size::Abs(pre))];
                if split {
                    ops.push(COp::Update(Size::Abs(len / 2)));
                    ops.push(COp::Update(Size::Abs(len - len / 2)));
                } else {
                    ops.push(COp::Update(Size::Abs(len)));
                }
                ops.push(COp::Finalize(64));
                Task::CHist(c06::Case { variant, mask, init, content, budget: 7_100_000, ops })
            })
        };
        // all threads of a case use the same library build (its statics are what they could share)
        (prop_oneof![5 => Just(0u8), 3 => Just(1u8), 1 => c06::variant_strategy()], crate::gen::select(vec![3usize, 4, 8, 8, 12, 16]))
            .prop_flat_map(move |(variant, n)| prop::collection::vec(prop::collection::vec(c_task(variant), 2..=3), n..=n))
            .prop_map(move |programs| Case { programs, repeats: core::cmp::max(4, reps / 3) })
    };
    #[cfg(feature = "cshim")]
    {
        prop_oneof![12 => mixed, 2 => streams, 2 => readers, 2 => rayon_callers, 3 => c_streams].boxed()
    }
    #[cfg(not(feature = "cshim"))]
    {
        prop_oneof![12 => mixed, 2 => streams, 2 => readers, 2 => rayon_callers].boxed()
    }
}

pub fn subs() -> Vec<Box<dyn DynSub>> {
    vec![Box::new(PropSub::<Case> {
        name: "threads-fresh-process",
        rule: "proptest: T in {2,4,8,16,32} threads, each with its own program of 1-3 tasks on its own instances (C01 one-shots, C02 histories incl. update_rayon/mmap, C03 XOF-reader histories, C06 histories on C hashers of both library builds with CPU detection left to race, bursts of 50-400 construct-update-finalize rounds in every mode on either library, extended-output readers consumed in 100-1500 small pieces through fill / io::Read / read_exact / the XofReader trait, and long streams of 60 KiB-3 MiB through update_reader/io::copy/update_mmap(_rayon)/update_rayon/write_all; one case in eight has every thread streaming at once, one in eight every thread reading extended output in small pieces at once, one in ten 3-12 threads all inside update_rayon / update_mmap_rayon on 1.2-6.5 MB each, one in ten 2-12 threads each handing 1-7 MB to one blake3_hasher_update call of a C library build), started together by a barrier in a FRESH child process and repeated 12x (quick) / 40x (thorough); oracle: every output of every thread equals the spec model (what the program yields alone) and the process exits cleanly; non-trivial = >=2 threads whose programs both hash > 16 chunks",
        cases: (320, 2_400),
        strategy,
        classify,
        check,
        known: None,
        crumb: false,
    }),
    Box::new(PropSub::<FirstCase> {
        name: "first-calls",
        rule: "proptest: a FRESH child process with 2-16 threads, each with its own instance (Rust crate, C assembly build, C intrinsics build, or mixed), input (0-300000 bytes, mostly one update > 8 KiB) and mode; expected outputs come from the spec model before any library code has run; the threads are released by a spin barrier (optional sub-microsecond stagger) so that their very first calls, and with them CPU-feature detection, happen at the same instant; then 60 (quick) / 400 (thorough) further rounds in the same process with the C libraries' detection cache reset to 'undefined' before each; oracle: every output equals what the thread yields alone; confirm-by-rerun as above; non-trivial = >=2 threads whose first call is one update of more than 8 KiB",
        cases: (160, 1_200),
        strategy: first_strategy,
        classify: classify_first,
        check: check_first,
        known: None,
        crumb: false,
    })]
}
