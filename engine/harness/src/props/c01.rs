//! C01 — one-shot hash / keyed_hash / derive_key compute the specification.

use crate::ensure;
use crate::gen::{self, Content, CtxSpec, ModeC};
use crate::runner::{eq_bytes, Classes, DynSub, EnumSub, PropSub, Tier};
use proptest::prelude::*;
use serde::{Deserialize, Serialize};

#[derive(Clone, Debug, Serialize, Deserialize)]
pub struct OneShot {
    pub mode: ModeC,
    pub len: usize,
    pub content: Content,
}

pub fn oneshot(mode: &ModeC, input: &[u8]) -> [u8; 32] {
    match mode {
        ModeC::Hash => *blake3::hash(input).as_bytes(),
        ModeC::Keyed(k) => *blake3::keyed_hash(k, input).as_bytes(),
        ModeC::Derive(c) => blake3::derive_key(&c.string(), input),
        ModeC::DeriveCk(_) => unreachable!("one-shot API has no context-key mode"),
    }
}

pub fn check(c: &OneShot) -> Result<(), String> {
    let input = c.content.expand(c.len);
    let got = oneshot(&c.mode, &input);
    let want = b3spec::root(&c.mode.kf(), &input).hash();
    eq_bytes("one-shot output vs spec", &got, &want)?;
    // The same call again must give the same answer (no hidden state).
    let again = oneshot(&c.mode, &input);
    ensure!(again == got, "one-shot call is not repeatable");
    Ok(())
}

pub fn classify(c: &OneShot) -> Classes {
    let chunks = (c.len + 1023) / 1024;
    Classes::new(c.len > 1024 || !c.mode.is_default())
        .tag(true, c.mode.tag())
        .tag(c.len == 0, "len=0")
        .tag(c.len > 0 && c.len <= 64, "len<=1block")
        .tag(c.len > 64 && c.len <= 1024, "len<=1chunk")
        .tag(c.len > 1024 && c.len <= 16 * 1024, "len<=16chunks")
        .tag(c.len > 16 * 1024, "len>16chunks")
        .tag(c.len % 1024 == 0 && c.len > 0, "chunk-aligned")
        .tag(c.len % 64 != 0, "partial-last-block")
        .tag(chunks > 1 && chunks.is_power_of_two() && c.len % 1024 == 0, "pow2-chunks-exact")
        .tag(chunks > 1 && (c.len - 1) / 1024 > 0 && ((c.len - 1) / 1024).is_power_of_two() && c.len % 1024 == 1, "pow2-chunks+1byte")
        .tag(matches!(&c.mode, ModeC::Derive(x) if x.len > 1024), "context>1chunk")
        .tag(matches!(&c.mode, ModeC::Derive(x) if x.len == 0), "context-empty")
        .tag(matches!(&c.mode, ModeC::Derive(x) if x.kind == 1), "context-non-ascii")
}

fn sweep_mode(len: usize, m: usize) -> ModeC {
    let mut s = (len as u64) * 3 + m as u64;
    match m {
        0 => ModeC::Hash,
        1 => {
            let mut k = [0u8; 32];
            if len % 7 != 0 {
                gen::fill_random(&mut k, gen::splitmix(&mut s));
            } else {
                k = *gen::TEST_KEY;
            }
            ModeC::Keyed(k)
        }
        _ => {
            let clen = if len % 257 == 0 { 1000 + (len % 200) as u16 } else { ((len * 7) % 90) as u16 };
            ModeC::Derive(CtxSpec { kind: (len % 2) as u8, len: clen, seed: gen::splitmix(&mut s) })
        }
    }
}

fn sweep_items(tier: Tier) -> Box<dyn Iterator<Item = OneShot>> {
    let max = tier.pick(130 * 1024 + 1, 520 * 1024 + 1);
    Box::new((0..=max).flat_map(|len| {
        (0..3usize).map(move |m| OneShot {
            mode: sweep_mode(len, m),
            len,
            content: Content { kind: [0u8, 3, 3, 4, 1, 2, 3][len % 7], seed: len as u64 * 31 + m as u64 },
        })
    }))
}

fn random_strategy(tier: Tier) -> BoxedStrategy<OneShot> {
    let max = tier.pick(256 * 1024, 4096 * 1024);
    (gen::mode3(), gen::len_lattice(max), gen::content())
        .prop_map(|(mode, len, content)| OneShot { mode, len, content })
        .boxed()
}

/// 256 KiB .. 16 MiB: deeper trees than the sweep reaches, on and around chunk / power-of-two /
/// 16-chunk boundaries (k * 2^j chunks + delta).
fn large_strategy(_tier: Tier) -> BoxedStrategy<OneShot> {
    let len = prop_oneof![
        3 => (8u32..=14, 1usize..=7, crate::gen::select(vec![-1025i64, -1024, -1, 0, 1, 63, 64, 1023, 1024, 1025])).prop_map(|(j, k, d)| ((k << j) * 1024) as i64 + d),
        2 => ((256usize * 1024)..=(16usize << 20)).prop_map(|l| l as i64),
        1 => ((256usize)..=(16usize << 10), crate::gen::select(vec![-1i64, 0, 1])).prop_map(|(chunks, d)| (chunks * 1024) as i64 + d),
    ]
    .prop_map(|l| core::cmp::min(core::cmp::max(l, 0) as usize, 16usize << 20));
    (gen::mode3(), len, gen::content()).prop_map(|(mode, len, content)| OneShot { mode, len, content }).boxed()
}

/// Inputs beyond 2^31 and 2^32 bytes ("up to what memory allows"): all-zero content, so the
/// buffer is lazily mapped zero pages and costs no RAM; the spec model needs ~8 s per 2 GiB.
fn huge_items(tier: Tier) -> Box<dyn Iterator<Item = OneShot>> {
    let mut lens: Vec<usize> = vec![(1usize << 31) + 1, (1usize << 32) + 1];
    if tier == Tier::Thorough {
        lens.extend([(1usize << 31) - 1, 1usize << 31, (1usize << 31) + 1025, 1usize << 32, (1usize << 32) + 1024 * 3 + 7, 3 * (1usize << 31) + 64]);
    }
    let modes = [ModeC::Hash, ModeC::Keyed(*gen::TEST_KEY), ModeC::Derive(CtxSpec { kind: 0, len: 30, seed: 5 })];
    Box::new(lens.into_iter().enumerate().map(move |(i, len)| OneShot { mode: modes[i % 3].clone(), len, content: Content { kind: 1, seed: 0 } }))
}

fn big_strategy(_tier: Tier) -> BoxedStrategy<OneShot> {
    (gen::mode3(), (16usize << 20)..=(64usize << 20), -2i64..=2, gen::content())
        .prop_map(|(mode, len, d, content)| {
            // half of the cases land within 2 bytes of a chunk multiple
            let len = if d != 2 { ((len / 1024) * 1024) as i64 + d } else { len as i64 };
            OneShot { mode, len: len as usize, content }
        })
        .boxed()
}

/// The one-shot functions at every SIMD level this CPU has (run-time dispatch is part of `hash`): the crate is
/// forced to each level in turn through hook 1 (DESIGN.md §2.5); without the hook only the native level runs.
#[derive(Clone, Debug, Serialize, Deserialize)]
pub struct AtLevel {
    pub level: crate::levels::Level,
    pub case: OneShot,
}

pub fn check_at_level(c: &AtLevel) -> Result<(), String> {
    if !crate::levels::available().contains(&c.level) {
        return Ok(());
    }
    crate::levels::with_level(c.level, || check(&c.case)).map_err(|e| format!("[forced {:?}] {}", c.level, e))
}

fn level_strategy(tier: Tier) -> BoxedStrategy<AtLevel> {
    let mut levels = crate::levels::available().clone();
    if levels.is_empty() {
        levels.push(crate::levels::Level::Portable);
    }
    (crate::gen::select(levels), random_strategy(tier)).prop_map(|(level, case)| AtLevel { level, case }).boxed()
}

/// Consecutive one-shot calls on one thread whose arguments are NEARLY identical (same length, long common prefix,
/// a difference near the end), then the first one again: whatever a call remembers must not leak into the next.
#[derive(Clone, Debug, Serialize, Deserialize)]
pub struct SeqCase {
    /// 0 = derive_key contexts vary, 1 = keyed_hash keys vary, 2 = inputs vary (hash), 3 = derive_key inputs vary
    pub kind: u8,
    pub base_len: u16,
    pub seed: u64,
    /// (distance of the changed byte from the end, value xor-ed in)
    pub variants: Vec<(u16, u8)>,
    pub other_len: u16,
}

pub fn check_seq(c: &SeqCase) -> Result<(), String> {
    let n = core::cmp::max(1, c.base_len as usize);
    let mut base = vec![0u8; n];
    gen::fill_random(&mut base, c.seed);
    if c.kind % 4 == 0 {
        for b in base.iter_mut() {
            *b = 0x21 + *b % 0x5d; // printable ASCII: a context is a &str
        }
    }
    let other = Content { kind: 3, seed: c.seed ^ 1 }.expand(c.other_len as usize);
    let mut calls: Vec<Vec<u8>> = vec![base.clone()];
    for (d, x) in &c.variants {
        let mut v = base.clone();
        let i = n - 1 - (*d as usize % n);
        let x = if c.kind % 4 == 0 { (*x % 0x1f) | 1 } else { *x | 1 };
        v[i] ^= x;
        if c.kind % 4 == 0 && !(0x20..0x7f).contains(&v[i]) {
            v[i] = b'~';
        }
        calls.push(v);
    }
    calls.push(base.clone());
    for (k, arg) in calls.iter().enumerate() {
        let (got, want): ([u8; 32], [u8; 32]) = match c.kind % 4 {
            0 => {
                let ctx = std::str::from_utf8(arg).map_err(|e| format!("ENGINE: {}", e))?;
                (blake3::derive_key(ctx, &other), b3spec::root(&b3spec::KeyFlags::derive_key(arg), &other).hash())
            }
            1 => {
                let mut key = [0u8; 32];
                for (j, b) in key.iter_mut().enumerate() {
                    *b = arg[j % arg.len()] ^ (j as u8);
                }
                if k > 0 && k + 1 < calls.len() {
                    key[31 - (k % 32)] ^= 0x80;
                }
                (*blake3::keyed_hash(&key, &other).as_bytes(), b3spec::root(&b3spec::KeyFlags::keyed(&key), &other).hash())
            }
            2 => (*blake3::hash(arg).as_bytes(), b3spec::root(&b3spec::KeyFlags::hash(), arg).hash()),
            _ => (blake3::derive_key("C01 related-sequences context", arg), b3spec::root(&b3spec::KeyFlags::derive_key(b"C01 related-sequences context"), arg).hash()),
        };
        eq_bytes(&format!("call #{} of {} nearly identical one-shot calls in a row (kind {}, {} bytes, arguments differ only near the end)", k, calls.len(), c.kind % 4, n), &got, &want)?;
    }
    Ok(())
}

fn seq_strategy(_tier: Tier) -> BoxedStrategy<SeqCase> {
    (
        0u8..4,
        prop_oneof![2 => 1u16..=64, 4 => 65u16..=300, 2 => 1000u16..=1100, 1 => 2000u16..=5000],
        any::<u64>(),
        prop::collection::vec((prop_oneof![3 => 0u16..=8, 1 => any::<u16>()], any::<u8>()), 1..=4),
        prop_oneof![Just(0u16), 1u16..=100, 1000u16..=1100],
    )
        .prop_map(|(kind, base_len, seed, variants, other_len)| SeqCase { kind, base_len, seed, variants, other_len })
        .boxed()
}

pub fn subs() -> Vec<Box<dyn DynSub>> {
    vec![
        Box::new(EnumSub::<OneShot> {
            name: "sweep",
            rule: "every input length 0..=N (N=130 chunks+1 quick, 520 chunks+1 thorough) x 3 modes, rotating content kinds/keys/contexts; non-trivial = len>1024 or keyed/derive mode; distinct by (mode,key/context,len,content)",
            items: sweep_items,
            classify,
            check,
            exhaustive: false,
            known: None,
            crumb: false,
        }),
        Box::new(PropSub::<OneShot> {
            name: "random",
            rule: "proptest: mode x length from the boundary lattice/uniform-small/log-uniform mixture x content kind; non-trivial = len>1024 or keyed/derive mode",
            cases: (60000, 600000),
            strategy: random_strategy,
            classify,
            check,
            known: None,
            crumb: false,
        }),
        Box::new(PropSub::<AtLevel> {
            name: "levels",
            rule: "proptest: the `random` generator with the crate forced to each SIMD level of this CPU (portable, SSE2, SSE4.1, AVX2, AVX-512) through hook 1: tree code that depends on the run-time SIMD degree; same oracle; non-trivial as for random",
            cases: (24000, 300000),
            strategy: level_strategy,
            classify: |c| classify(&c.case).tag(true, crate::levels::cfg_tag(c.level)),
            check: check_at_level,
            known: None,
            crumb: false,
        }),
        Box::new(PropSub::<SeqCase> {
            name: "related-sequences",
            rule: "proptest: 3-6 consecutive one-shot calls on one thread whose varying argument (derive_key context, keyed_hash key, hash input, derive_key input) has the same length and a long common prefix and differs in one byte near the end, ending with the first argument again; every result vs spec (whatever a call caches or remembers must not leak into the next); non-trivial = argument longer than 64 bytes",
            cases: (16000, 200000),
            strategy: seq_strategy,
            classify: |c| Classes::new(c.base_len > 64).tag(c.kind % 4 == 0, "contexts-vary").tag(c.kind % 4 == 1, "keys-vary").tag(c.kind % 4 == 2, "inputs-vary(hash)").tag(c.kind % 4 == 3, "inputs-vary(derive_key)").tag(c.base_len > 1024, "argument>1chunk"),
            check: check_seq,
            known: None,
            crumb: false,
        }),
        Box::new(PropSub::<OneShot> {
            name: "large",
            rule: "proptest: 256 KiB - 16 MiB inputs at k*2^j chunks + delta, uniform, and whole chunk counts +-1 (tree depths beyond the sweep); same oracle",
            cases: (320, 6000),
            strategy: large_strategy,
            classify,
            check,
            known: None,
            crumb: false,
        }),
        Box::new(EnumSub::<OneShot> {
            name: "huge",
            rule: "enumeration: inputs of 2^31+1 and 2^32+1 bytes (quick) plus 2^31-1, 2^31, 2^31+1025, 2^32, 2^32+3079, 3*2^31+64 (thorough), zero content, rotating modes; same oracle (lengths beyond 32-bit arithmetic)",
            items: huge_items,
            classify,
            check,
            exhaustive: false,
            known: None,
            crumb: false,
        }),
        Box::new(PropSub::<OneShot> {
            name: "big",
            rule: "proptest: 16-64 MiB inputs, mostly within 2 bytes of a chunk multiple (thorough tier only)",
            cases: (0, 24),
            strategy: big_strategy,
            classify,
            check,
            known: None,
            crumb: false,
        }),
    ]
}
