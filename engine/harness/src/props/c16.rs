//! C16 — RustCrypto trait impls and the legacy guts API agree with the inherent API.
#![cfg(feature = "full")]
#![allow(deprecated)]

use crate::ensure;
use crate::gen::{self, Content, ModeC};
use crate::hist::{self, Size};
use crate::runner::{eq_bytes, Classes, DynSub, PropSub, Tier};
use blake3::traits::digest as dg;
use blake3::Hasher;
use dg::{Digest, DynDigest, ExtendableOutput, ExtendableOutputReset, FixedOutput, FixedOutputReset, KeyInit, Mac, XofReader};
use proptest::prelude::*;
use serde::{Deserialize, Serialize};

#[derive(Clone, Debug, Serialize, Deserialize, PartialEq, Eq)]
pub enum TOp {
    Update(Size),
    Chain(Size),
    DigestUpdate(Size),
    DigestChain(Size),
    MacUpdate(Size),
    MacChain(Size),
    DynUpdate(Size),
    FinalizeFixed,
    FinalizeInto,
    FinalizeFixedReset,
    FinalizeIntoReset,
    Xof(u16),
    XofInto(u16),
    XofBoxed(u16),
    FinalizeBoxed(u16),
    XofReset(u16),
    XofResetInto(u16),
    FinalizeBoxedReset(u16),
    Reset,
    DigestFinalize,
    DigestFinalizeInto,
    DigestFinalizeReset,
    DigestFinalizeIntoReset,
    DigestReset,
    DynFinalizeReset,
    DynFinalizeBoxed,
    DynFinalizeInto,
    DynFinalizeIntoReset,
    DynReset,
    DynBoxClone,
    MacFinalize,
    MacFinalizeReset,
    MacReset,
    MacVerify(bool),
    MacVerifySlice(bool),
    MacVerifyReset(bool),
    MacVerifySliceReset(bool),
    MacVerifyTruncLeft(u8, bool),
    MacVerifyTruncRight(u8, bool),
}

impl TOp {
    fn size(&self) -> Option<&Size> {
        match self {
            TOp::Update(s) | TOp::Chain(s) | TOp::DigestUpdate(s) | TOp::DigestChain(s) | TOp::MacUpdate(s) | TOp::MacChain(s) | TOp::DynUpdate(s) => Some(s),
            _ => None,
        }
    }
    fn resets(&self) -> bool {
        matches!(
            self,
            TOp::FinalizeFixedReset
                | TOp::FinalizeIntoReset
                | TOp::XofReset(_)
                | TOp::XofResetInto(_)
                | TOp::FinalizeBoxedReset(_)
                | TOp::Reset
                | TOp::DigestFinalizeReset
                | TOp::DigestFinalizeIntoReset
                | TOp::DigestReset
                | TOp::DynFinalizeReset
                | TOp::DynFinalizeIntoReset
                | TOp::DynReset
                | TOp::MacFinalizeReset
                | TOp::MacReset
                | TOp::MacVerifyReset(_)
                | TOp::MacVerifySliceReset(_)
        )
    }
}

#[derive(Clone, Debug, Serialize, Deserialize)]
pub struct Case {
    pub mode: ModeC,
    /// construct through the trait constructors where one exists (Digest::new, KeyInit::new / new_from_slice)
    pub trait_ctor: u8,
    pub content: Content,
    pub budget: u32,
    pub ops: Vec<TOp>,
}

fn construct(c: &Case) -> Result<Hasher, String> {
    match (&c.mode, c.trait_ctor % 3) {
        (ModeC::Hash, 1) => Ok(<Hasher as Digest>::new()),
        (ModeC::Hash, 2) => Ok(<Hasher as Default>::default()),
        (ModeC::Keyed(k), 1) => Ok(<Hasher as KeyInit>::new(&(*k).into())),
        (ModeC::Keyed(k), 2) => {
            for n in [0usize, 1, 31, 33, 64] {
                let v = vec![7u8; n];
                ensure!(<Hasher as KeyInit>::new_from_slice(&v).is_err(), "KeyInit::new_from_slice accepted a {}-byte key", n);
            }
            <Hasher as KeyInit>::new_from_slice(&k[..]).map_err(|_| "KeyInit::new_from_slice rejected a 32-byte key".to_string())
        }
        (m, _) => Ok(m.hasher()),
    }
}

fn tamper(tag: &mut [u8], good: bool) {
    if !good && !tag.is_empty() {
        let i = tag.len() / 2;
        tag[i] ^= 0x40;
    }
}

pub fn check(c: &Case) -> Result<(), String> {
    let data = c.content.expand(c.budget as usize);
    let mut cursor = 0usize;
    let mut t = construct(c)?; // driven through the traits
    let mut u = c.mode.hasher(); // driven through the inherent methods
    let mut model = b3spec::Incr::new(c.mode.kf());
    for (i, op) in c.ops.iter().enumerate() {
        let what = format!("op #{} {:?}", i, op);
        let spec = model.output();
        let want32 = spec.hash();
        let inh32 = *Hasher::finalize(&u).as_bytes();
        ensure!(inh32 == want32, "{}: inherent twin disagrees with spec (harness or C02 problem)", what);
        if let Some(sz) = op.size() {
            let n = sz.resolve(model.len(), data.len() - cursor);
            let bytes = &data[cursor..cursor + n];
            cursor += n;
            match op {
                TOp::Update(_) => dg::Update::update(&mut t, bytes),
                TOp::Chain(_) => t = dg::Update::chain(t, bytes),
                TOp::DigestUpdate(_) => Digest::update(&mut t, bytes),
                TOp::DigestChain(_) => t = Digest::chain_update(t, bytes),
                TOp::MacUpdate(_) => Mac::update(&mut t, bytes),
                TOp::MacChain(_) => t = Mac::chain_update(t, bytes),
                TOp::DynUpdate(_) => {
                    let d: &mut dyn DynDigest = &mut t;
                    d.update(bytes);
                }
                _ => unreachable!(),
            }
            Hasher::update(&mut u, bytes);
            model.push(bytes);
        } else {
            let xof_want = |n: usize| spec.xof(0, n);
            match op {
                TOp::FinalizeFixed => eq_bytes(&what, &FixedOutput::finalize_fixed(t.clone())[..], &want32)?,
                TOp::FinalizeInto => {
                    let mut o = dg::Output::<Hasher>::default();
                    FixedOutput::finalize_into(t.clone(), &mut o);
                    eq_bytes(&what, &o[..], &want32)?;
                }
                TOp::FinalizeFixedReset => eq_bytes(&what, &FixedOutputReset::finalize_fixed_reset(&mut t)[..], &want32)?,
                TOp::FinalizeIntoReset => {
                    let mut o = dg::Output::<Hasher>::default();
                    FixedOutputReset::finalize_into_reset(&mut t, &mut o);
                    eq_bytes(&what, &o[..], &want32)?;
                }
                TOp::Xof(n) => {
                    let mut r = ExtendableOutput::finalize_xof(t.clone());
                    // several reads: the reader keeps its position. The piece sizes follow one of eight patterns chosen
                    // by n (thirds; hash-sized; block-sized; pieces that start or end on block boundaries)
                    let n = *n as usize;
                    let mut o = vec![0u8; n];
                    let pats: [&[usize]; 8] = [&[0], &[32], &[64, 32], &[1, 63, 32], &[16], &[33, 31], &[64], &[128, 32, 7]];
                    let pat = pats[n % 8];
                    if pat == [0] {
                        let (a, b) = o.split_at_mut(n / 3);
                        XofReader::read(&mut r, a);
                        XofReader::read(&mut r, b);
                    } else {
                        let (mut at, mut k) = (0usize, 0usize);
                        while at < n {
                            let len = core::cmp::min(pat[k % pat.len()], n - at);
                            XofReader::read(&mut r, &mut o[at..at + len]);
                            at += len;
                            k += 1;
                        }
                    }
                    eq_bytes(&what, &o, &xof_want(n))?;
                }
                TOp::XofInto(n) => {
                    let mut o = vec![0u8; *n as usize];
                    ExtendableOutput::finalize_xof_into(t.clone(), &mut o);
                    eq_bytes(&what, &o, &xof_want(*n as usize))?;
                }
                TOp::XofBoxed(n) => {
                    let mut r = ExtendableOutput::finalize_xof(t.clone());
                    let o = XofReader::read_boxed(&mut r, *n as usize);
                    eq_bytes(&what, &o, &xof_want(*n as usize))?;
                }
                TOp::FinalizeBoxed(n) => eq_bytes(&what, &ExtendableOutput::finalize_boxed(t.clone(), *n as usize), &xof_want(*n as usize))?,
                TOp::XofReset(n) => {
                    let mut r = ExtendableOutputReset::finalize_xof_reset(&mut t);
                    let mut o = vec![0u8; *n as usize];
                    XofReader::read(&mut r, &mut o);
                    eq_bytes(&what, &o, &xof_want(*n as usize))?;
                }
                TOp::XofResetInto(n) => {
                    let mut o = vec![0u8; *n as usize];
                    ExtendableOutputReset::finalize_xof_reset_into(&mut t, &mut o);
                    eq_bytes(&what, &o, &xof_want(*n as usize))?;
                }
                TOp::FinalizeBoxedReset(n) => eq_bytes(&what, &ExtendableOutputReset::finalize_boxed_reset(&mut t, *n as usize), &xof_want(*n as usize))?,
                TOp::Reset => dg::Reset::reset(&mut t),
                TOp::DigestFinalize => eq_bytes(&what, &Digest::finalize(t.clone())[..], &want32)?,
                TOp::DigestFinalizeInto => {
                    let mut o = dg::Output::<Hasher>::default();
                    Digest::finalize_into(t.clone(), &mut o);
                    eq_bytes(&what, &o[..], &want32)?;
                }
                TOp::DigestFinalizeReset => eq_bytes(&what, &Digest::finalize_reset(&mut t)[..], &want32)?,
                TOp::DigestFinalizeIntoReset => {
                    let mut o = dg::Output::<Hasher>::default();
                    Digest::finalize_into_reset(&mut t, &mut o);
                    eq_bytes(&what, &o[..], &want32)?;
                }
                TOp::DigestReset => Digest::reset(&mut t),
                TOp::DynFinalizeReset => {
                    let d: &mut dyn DynDigest = &mut t;
                    ensure!(d.output_size() == 32, "{}: DynDigest::output_size() = {}", what, d.output_size());
                    eq_bytes(&what, &d.finalize_reset(), &want32)?;
                }
                TOp::DynFinalizeBoxed => {
                    let b: Box<dyn DynDigest> = Box::new(t.clone());
                    eq_bytes(&what, &b.finalize(), &want32)?;
                }
                TOp::DynFinalizeInto => {
                    let mut o = [0u8; 32];
                    DynDigest::finalize_into(t.clone(), &mut o).map_err(|_| format!("{}: finalize_into rejected a 32-byte buffer", what))?;
                    eq_bytes(&what, &o, &want32)?;
                    let mut small = [0u8; 31];
                    ensure!(DynDigest::finalize_into(t.clone(), &mut small).is_err(), "{}: finalize_into accepted a 31-byte buffer", what);
                }
                TOp::DynFinalizeIntoReset => {
                    let mut o = [0u8; 32];
                    let d: &mut dyn DynDigest = &mut t;
                    d.finalize_into_reset(&mut o).map_err(|_| format!("{}: finalize_into_reset rejected a 32-byte buffer", what))?;
                    eq_bytes(&what, &o, &want32)?;
                }
                TOp::DynReset => {
                    let d: &mut dyn DynDigest = &mut t;
                    d.reset();
                }
                TOp::DynBoxClone => {
                    let d: &dyn DynDigest = &t;
                    let mut b = d.box_clone();
                    eq_bytes(&what, &b.finalize_reset(), &want32)?;
                }
                TOp::MacFinalize => eq_bytes(&what, &Mac::finalize(t.clone()).into_bytes()[..], &want32)?,
                TOp::MacFinalizeReset => eq_bytes(&what, &Mac::finalize_reset(&mut t).into_bytes()[..], &want32)?,
                TOp::MacReset => Mac::reset(&mut t),
                TOp::MacVerify(good) => {
                    let mut tag = want32;
                    tamper(&mut tag, *good);
                    let r = Mac::verify(t.clone(), &tag.into());
                    ensure!(r.is_ok() == *good, "{}: verify of a {} tag returned {:?}", what, if *good { "correct" } else { "tampered" }, r.is_ok());
                }
                TOp::MacVerifySlice(good) => {
                    let mut tag = want32;
                    tamper(&mut tag, *good);
                    let r = Mac::verify_slice(t.clone(), &tag);
                    ensure!(r.is_ok() == *good, "{}: verify_slice of a {} tag returned {:?}", what, if *good { "correct" } else { "tampered" }, r.is_ok());
                    ensure!(Mac::verify_slice(t.clone(), &want32[..31]).is_err(), "{}: verify_slice accepted a 31-byte tag", what);
                }
                TOp::MacVerifyReset(good) => {
                    let mut tag = want32;
                    tamper(&mut tag, *good);
                    let r = Mac::verify_reset(&mut t, &tag.into());
                    ensure!(r.is_ok() == *good, "{}: verify_reset returned {:?}", what, r.is_ok());
                }
                TOp::MacVerifySliceReset(good) => {
                    let mut tag = want32;
                    tamper(&mut tag, *good);
                    let r = Mac::verify_slice_reset(&mut t, &tag);
                    ensure!(r.is_ok() == *good, "{}: verify_slice_reset returned {:?}", what, r.is_ok());
                }
                TOp::MacVerifyTruncLeft(n, good) => {
                    let n = 1 + (*n as usize % 32);
                    let mut tag = want32[..n].to_vec();
                    tamper(&mut tag, *good);
                    let r = Mac::verify_truncated_left(t.clone(), &tag);
                    ensure!(r.is_ok() == *good, "{}: verify_truncated_left({} bytes, {}) returned {:?}", what, n, good, r.is_ok());
                }
                TOp::MacVerifyTruncRight(n, good) => {
                    let n = 1 + (*n as usize % 32);
                    let mut tag = want32[32 - n..].to_vec();
                    tamper(&mut tag, *good);
                    let r = Mac::verify_truncated_right(t.clone(), &tag);
                    ensure!(r.is_ok() == *good, "{}: verify_truncated_right({} bytes, {}) returned {:?}", what, n, good, r.is_ok());
                }
                _ => unreachable!(),
            }
            if op.resets() {
                Hasher::reset(&mut u);
                model.clear();
            }
        }
        // the state left behind is the same as the inherent twin's
        ensure!(Hasher::count(&t) == Hasher::count(&u), "{}: count() {} after the trait call, inherent twin has {}", what, Hasher::count(&t), Hasher::count(&u));
        ensure!(Hasher::finalize(&t) == Hasher::finalize(&u), "{}: state after the trait call differs from the inherent twin", what);
        eq_bytes(&format!("{}: state after the call vs spec", what), Hasher::finalize(&t).as_bytes(), &model.output().hash())?;
    }
    Ok(())
}

pub fn classify(c: &Case) -> Classes {
    let mut reset_then_more = false;
    let mut seen_reset = false;
    let mut len = 0u64;
    let mut cursor = 0usize;
    let mut families: Vec<&'static str> = Vec::new();
    for op in &c.ops {
        if let Some(sz) = op.size() {
            let n = sz.resolve(len, c.budget as usize - cursor);
            cursor += n;
            len += n as u64;
            if seen_reset && n > 0 {
                reset_then_more = true;
            }
        } else if op.resets() {
            seen_reset = true;
            len = 0;
        }
        let fam = match op {
            TOp::Update(_) | TOp::Chain(_) => "trait=Update",
            TOp::FinalizeFixed | TOp::FinalizeInto => "trait=FixedOutput",
            TOp::FinalizeFixedReset | TOp::FinalizeIntoReset => "trait=FixedOutputReset",
            TOp::Xof(_) | TOp::XofInto(_) | TOp::XofBoxed(_) | TOp::FinalizeBoxed(_) => "trait=ExtendableOutput+XofReader",
            TOp::XofReset(_) | TOp::XofResetInto(_) | TOp::FinalizeBoxedReset(_) => "trait=ExtendableOutputReset",
            TOp::Reset => "trait=Reset",
            TOp::DigestUpdate(_) | TOp::DigestChain(_) | TOp::DigestFinalize | TOp::DigestFinalizeInto | TOp::DigestFinalizeReset | TOp::DigestFinalizeIntoReset | TOp::DigestReset => "trait=Digest",
            TOp::DynUpdate(_) | TOp::DynFinalizeReset | TOp::DynFinalizeBoxed | TOp::DynFinalizeInto | TOp::DynFinalizeIntoReset | TOp::DynReset | TOp::DynBoxClone => "trait=DynDigest",
            _ => "trait=Mac",
        };
        if !families.contains(&fam) {
            families.push(fam);
        }
    }
    let mut cl = Classes::new(reset_then_more).tag(true, c.mode.tag()).tag(c.trait_ctor % 3 != 0, "trait-constructor");
    cl.tags.extend(families);
    cl
}

fn op_strategy(max_abs: u32) -> BoxedStrategy<TOp> {
    let sz = || hist::size(max_abs);
    let n = || prop_oneof![1 => Just(0u16), 3 => 1u16..=200, 1 => 0u16..=1500, 3 => crate::gen::select(vec![1u16, 16, 31, 32, 33, 63, 64, 65, 96, 128, 192, 256])];
    prop_oneof![
        4 => sz().prop_map(TOp::Update),
        1 => sz().prop_map(TOp::Chain),
        2 => sz().prop_map(TOp::DigestUpdate),
        1 => sz().prop_map(TOp::DigestChain),
        2 => sz().prop_map(TOp::MacUpdate),
        1 => sz().prop_map(TOp::MacChain),
        1 => sz().prop_map(TOp::DynUpdate),
        4 => crate::gen::select(vec![
            TOp::FinalizeFixed, TOp::FinalizeInto, TOp::FinalizeFixedReset, TOp::FinalizeIntoReset, TOp::Reset,
            TOp::DigestFinalize, TOp::DigestFinalizeInto, TOp::DigestFinalizeReset, TOp::DigestFinalizeIntoReset, TOp::DigestReset,
            TOp::DynFinalizeReset, TOp::DynFinalizeBoxed, TOp::DynFinalizeInto, TOp::DynFinalizeIntoReset, TOp::DynReset, TOp::DynBoxClone,
            TOp::MacFinalize, TOp::MacFinalizeReset, TOp::MacReset,
        ]),
        3 => (n(), 0u8..7).prop_map(|(n, k)| match k {
            0 => TOp::Xof(n),
            1 => TOp::XofInto(n),
            2 => TOp::XofBoxed(n),
            3 => TOp::FinalizeBoxed(n),
            4 => TOp::XofReset(n),
            5 => TOp::XofResetInto(n),
            _ => TOp::FinalizeBoxedReset(n),
        }),
        2 => (any::<bool>(), 0u8..4, any::<u8>()).prop_map(|(g, k, n)| match k {
            0 => TOp::MacVerify(g),
            1 => TOp::MacVerifySlice(g),
            2 => TOp::MacVerifyTruncLeft(n, g),
            _ => TOp::MacVerifyTruncRight(n, g),
        }),
        1 => (any::<bool>(), any::<bool>()).prop_map(|(g, s)| if s { TOp::MacVerifySliceReset(g) } else { TOp::MacVerifyReset(g) }),
    ]
    .boxed()
}

fn strategy(tier: Tier) -> BoxedStrategy<Case> {
    let budget = tier.pick(96 * 1024u32, 1024 * 1024u32);
    let max_abs = tier.pick(30_000u32, 300_000u32);
    let max_ops = tier.pick(30usize, 80usize);
    (gen::mode3(), 0u8..3, gen::content(), prop::collection::vec(op_strategy(max_abs), 1..=max_ops))
        .prop_map(move |(mode, trait_ctor, content, ops)| Case { mode, trait_ctor, content, budget, ops })
        .boxed()
}

// ---------------------------------------------------------------------------
// guts (deprecated) API
// ---------------------------------------------------------------------------
#[derive(Clone, Debug, Serialize, Deserialize)]
pub enum GCase {
    Chunk { counter: u64, len: u16, content: Content, splits: Vec<Size>, is_root: bool },
    Parent { left: [u8; 32], right: [u8; 32], is_root: bool },
    /// one-shot trait functions
    OneShot { len: u32, content: Content, out: u16 },
}

pub fn check_guts(c: &GCase) -> Result<(), String> {
    use blake3::guts;
    let kf = b3spec::KeyFlags::hash();
    match c {
        GCase::Chunk { counter, len, content, splits, is_root } => {
            let len = core::cmp::min(*len as usize, 1024);
            // the specification defines a root chunk only as chunk 0
            let counter = if *is_root { 0 } else { *counter };
            let data = content.expand(len);
            let mut cs = guts::ChunkState::new(counter);
            let mut done = 0usize;
            let mut k = 0;
            while done < len {
                let sz = if splits.is_empty() { Size::Abs(u32::MAX) } else { splits[k % splits.len()].clone() };
                let mut n = sz.resolve(done as u64, len - done);
                if k >= 8 {
                    n = len - done;
                }
                cs.update(&data[done..done + n]);
                done += n;
                k += 1;
                ensure!(cs.len() == done, "ChunkState::len() = {} after {} bytes", cs.len(), done);
            }
            ensure!(cs.len() == len, "ChunkState::len() = {} expected {}", cs.len(), len);
            let out = b3spec::chunk_output(&kf, &data, counter);
            let got = cs.finalize(*is_root);
            if *is_root {
                eq_bytes(&format!("guts::ChunkState({}).finalize(true) over {} bytes vs spec root hash", counter, len), got.as_bytes(), &out.hash())?;
                ensure!(got == blake3::hash(&data), "root chunk hash differs from blake3::hash");
            } else {
                eq_bytes(&format!("guts::ChunkState({}).finalize(false) over {} bytes vs spec chunk CV", counter, len), got.as_bytes(), &out.chaining_value_bytes())?;
            }
            // finalize does not consume or change the state
            ensure!(cs.finalize(*is_root) == got && cs.len() == len, "guts::ChunkState::finalize is not repeatable");
            Ok(())
        }
        GCase::Parent { left, right, is_root } => {
            let out = b3spec::parent_output(&kf, &b3spec::words_from_bytes_32(left), &b3spec::words_from_bytes_32(right));
            let got = guts::parent_cv(&blake3::Hash::from_bytes(*left), &blake3::Hash::from_bytes(*right), *is_root);
            let want = if *is_root { out.hash() } else { out.chaining_value_bytes() };
            eq_bytes(&format!("guts::parent_cv(is_root={})", is_root), got.as_bytes(), &want)
        }
        GCase::OneShot { len, content, out } => {
            let data = content.expand(*len as usize);
            let spec = b3spec::root(&kf, &data);
            eq_bytes("Digest::digest", &<Hasher as Digest>::digest(&data)[..], &spec.hash())?;
            let mut o = vec![0u8; *out as usize];
            <Hasher as ExtendableOutput>::digest_xof(&data, &mut o);
            eq_bytes("ExtendableOutput::digest_xof", &o, &spec.xof(0, *out as usize))?;
            ensure!(<Hasher as Digest>::output_size() == 32, "Digest::output_size() = {}", <Hasher as Digest>::output_size());
            let half = data.len() / 2;
            let mut p = <Hasher as Digest>::new_with_prefix(&data[..half]);
            Digest::update(&mut p, &data[half..]);
            eq_bytes("Digest::new_with_prefix + update", &Digest::finalize(p)[..], &spec.hash())?;
            Ok(())
        }
    }
}

pub fn classify_guts(c: &GCase) -> Classes {
    match c {
        GCase::Chunk { counter, len, splits, is_root, .. } => Classes::new(*counter >= (1 << 32) || splits.len() >= 2)
            .tag(true, "guts::ChunkState")
            .tag(*is_root, "is_root")
            .tag(!*is_root && *counter >= (1 << 32), "counter>=2^32")
            .tag(*len as usize >= 1024, "full-chunk")
            .tag(*len == 0, "empty-chunk"),
        GCase::Parent { is_root, .. } => Classes::new(true).tag(true, "guts::parent_cv").tag(*is_root, "is_root"),
        GCase::OneShot { .. } => Classes::new(true).tag(true, "one-shot-trait-functions"),
    }
}

fn guts_strategy(_tier: Tier) -> BoxedStrategy<GCase> {
    prop_oneof![
        6 => (gen::counter_lattice(), prop_oneof![2 => 0u16..=1024, 1 => crate::gen::select(vec![0u16, 1, 63, 64, 65, 128, 1023, 1024])], gen::content(), prop::collection::vec(hist::size(1024), 0..4), prop::bool::weighted(0.25))
            .prop_map(|(counter, len, content, splits, is_root)| GCase::Chunk { counter, len, content, splits, is_root }),
        3 => (gen::key32(), gen::key32(), any::<bool>()).prop_map(|(left, right, is_root)| GCase::Parent { left, right, is_root }),
        1 => (gen::len_lattice(40_000).prop_map(|l| l as u32), gen::content(), 0u16..=500).prop_map(|(len, content, out)| GCase::OneShot { len, content, out }),
    ]
    .boxed()
}

pub fn subs() -> Vec<Box<dyn DynSub>> {
    vec![
        Box::new(PropSub::<Case> {
            name: "trait-histories",
            rule: "proptest: histories over digest 0.11 (blake3::traits::digest) Update::{update,chain}, FixedOutput(+Reset)::{finalize_into,finalize_fixed,..._reset}, ExtendableOutput(+Reset)::{finalize_xof,finalize_xof_into,finalize_boxed,..._reset}, XofReader::{read,read_boxed}, Reset, Digest::*, DynDigest::* (incl. box_clone), Mac::{update,chain_update,finalize,finalize_reset,reset,verify*,verify_truncated_left/right} with correct and tampered tags, constructors Digest::new / Default / KeyInit::new / new_from_slice (wrong lengths rejected); a twin driven by the inherent methods and the spec model are compared after every call (outputs, count(), state left behind); non-trivial = a resetting variant followed by more input",
            cases: (24_000, 200_000),
            strategy,
            classify,
            check,
            known: None,
            crumb: false,
        }),
        Box::new(PropSub::<GCase> {
            name: "guts",
            rule: "proptest: guts::ChunkState::new(counter from the 64-bit lattice) fed 0..=1024 bytes in generated splits, len() after every update, finalize(is_root) vs spec chunk CV (any counter) or spec root hash (is_root only with counter 0, the only root chunk the spec defines); guts::parent_cv over random CV pairs vs spec parent CV / root; one-shot Digest::digest, digest_xof, new_with_prefix; non-trivial = counter>=2^32 or >=2 update sizes (all parent/one-shot cases)",
            cases: (60_000, 600_000),
            strategy: guts_strategy,
            classify: classify_guts,
            check: check_guts,
            known: None,
            crumb: false,
        }),
    ]
}
