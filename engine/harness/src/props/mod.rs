use crate::runner::DynSub;

pub mod c01;
pub mod c02;
pub mod c03;
pub mod c04;
pub mod c05;
#[cfg(feature = "cshim")]
pub mod c06;
pub mod c07;
#[cfg(all(feature = "full", blake3_team_blake3_verif))]
pub mod c08;
pub mod c09;
pub mod c10;
#[cfg(feature = "full")]
pub mod c11;
#[cfg(feature = "b3")]
pub mod c12;
#[cfg(feature = "b3")]
pub mod c13;
#[cfg(feature = "full")]
pub mod c14;
#[cfg(feature = "full")]
pub mod c15;
#[cfg(feature = "full")]
pub mod c16;
#[cfg(feature = "full")]
pub mod c17;
#[cfg(feature = "full")]
pub mod c18;

pub fn build_info() -> String {
    let mut f: Vec<&str> = Vec::new();
    if cfg!(feature = "full") { f.push("full"); } else { f.push("nostd"); }
    if cfg!(feature = "intr") { f.push("prefer_intrinsics"); }
    if cfg!(feature = "pure") { f.push("pure"); }
    if cfg!(feature = "no_avx512") { f.push("no_avx512"); }
    if cfg!(feature = "no_avx2") { f.push("no_avx2"); }
    if cfg!(feature = "no_sse41") { f.push("no_sse41"); }
    if cfg!(feature = "no_sse2") { f.push("no_sse2"); }
    if cfg!(blake3_team_blake3_verif) { f.push("hooks"); } else { f.push("nohooks"); }
    if cfg!(debug_assertions) { f.push("debug_assertions"); } else { f.push("plain"); }
    f.join("+")
}

pub fn subs(prop: &str) -> Vec<Box<dyn DynSub>> {
    match prop {
        "C01" => c01::subs(),
        "C02" => c02::subs(),
        "C03" => c03::subs(),
        "C04" => c04::subs(),
        "C05" => c05::subs(),
        #[cfg(feature = "cshim")]
        "C06" => c06::subs(),
        "C07" => c07::subs(),
        #[cfg(all(feature = "full", blake3_team_blake3_verif))]
        "C08" => c08::subs(),
        "C09" => c09::subs(),
        "C10" => c10::subs(),
        #[cfg(feature = "full")]
        "C11" => c11::subs(),
        #[cfg(feature = "b3")]
        "C12" => c12::subs(),
        #[cfg(feature = "b3")]
        "C13" => c13::subs(),
        #[cfg(feature = "full")]
        "C14" => c14::subs(),
        #[cfg(feature = "full")]
        "C15" => c15::subs(),
        #[cfg(feature = "full")]
        "C16" => c16::subs(),
        #[cfg(feature = "full")]
        "C17" => c17::subs(),
        #[cfg(feature = "full")]
        "C18" => c18::subs(),
        _ => Vec::new(),
    }
}
