//! C07 — native code stays inside its buffers and obeys the calling convention.
//!
//! Every case runs in a forked child: a fault is an ordinary failing case.

use crate::ensure;
use crate::gen::{self, fill_random};
use crate::guard::{in_server, GuardBuf, Place};
use crate::kernels::{all_kernels, Kernel};
use crate::props::c05::{self, block_bytes, KCase};
use crate::runner::{eq_bytes, Classes, DynSub, PropSub, Tier};
use proptest::prelude::*;
use serde::{Deserialize, Serialize};

#[derive(Clone, Debug, Serialize, Deserialize)]
pub struct GCase {
    pub k: KCase,
    /// false = buffers end at the guard page, true = buffers start at the guard page
    pub in_start_flush: bool,
    pub out_start_flush: bool,
    /// byte-granular buffers (block, inputs, outputs) are moved off their natural alignment by this many bytes (0..16)
    #[serde(default)]
    pub mis: u8,
}

/// A guard-placed buffer whose data start is moved off its natural alignment by `mis` bytes: the data sit at the
/// flush end of a region that is `mis` bytes longer; the `mis` slack bytes on the open side are checked like a canary.
struct MBuf {
    g: GuardBuf,
    off: usize,
    len: usize,
}

const SLACK: u8 = 0xA5;

impl MBuf {
    fn new(len: usize, place: Place, mis: usize) -> MBuf {
        let start = matches!(place, Place::StartFlush);
        let mut g = GuardBuf::new(len + mis, place);
        g.as_mut_slice().fill(SLACK);
        // the `mis` slack bytes lie between the data and the guard page (page boundaries are aligned, so data that
        // touch the guard page always have the same alignment): end-flush region = data then slack, start-flush
        // region = slack then data; with mis = 0 the data are flush against the guard page
        let off = if start { mis } else { 0 };
        MBuf { g, off, len }
    }
    fn with_bytes(data: &[u8], place: Place, mis: usize) -> MBuf {
        let mut m = MBuf::new(data.len(), place, mis);
        m.as_mut_slice().copy_from_slice(data);
        m
    }
    fn ptr(&self) -> *mut u8 {
        unsafe { self.g.ptr().add(self.off) }
    }
    fn as_slice(&self) -> &[u8] {
        &self.g.as_slice()[self.off..self.off + self.len]
    }
    fn as_mut_slice(&mut self) -> &mut [u8] {
        let (o, l) = (self.off, self.len);
        &mut self.g.as_mut_slice()[o..o + l]
    }
    fn intact(&self) -> bool {
        let all = self.g.as_slice();
        self.g.canary_intact() && all[..self.off].iter().all(|b| *b == SLACK) && all[self.off + self.len..].iter().all(|b| *b == SLACK)
    }
}

fn place(start: bool) -> Place {
    if start {
        Place::StartFlush
    } else {
        Place::EndFlush
    }
}

fn words(b: &[u32; 8]) -> Vec<u8> {
    b.iter().flat_map(|w| w.to_le_bytes()).collect()
}

/// Run one kernel on guard-placed buffers and compare with the spec oracle.
fn guarded_kernel(c: &GCase, k: &dyn Kernel) -> Result<(), String> {
    let pin = place(c.in_start_flush);
    let pout = place(c.out_start_flush);
    let mis = (c.mis % 16) as usize;
    match &c.k {
        KCase::Compress { cv, block_kind, block_seed, block_len, counter, flags, .. } => {
            let block = block_bytes(*block_kind, *block_seed);
            let want16 = b3spec::compress(cv, &b3spec::words_from_bytes_64(&block), *counter, *block_len as u32, *flags as u32);
            let gblock = MBuf::with_bytes(&block, pin, mis);
            let blk: &[u8; 64] = unsafe { &*(gblock.ptr() as *const [u8; 64]) };
            // in place: cv is both input and output
            let mut gcv = GuardBuf::with_bytes(&words(cv), pout);
            let cvref: &mut [u32; 8] = unsafe { &mut *(gcv.ptr() as *mut [u32; 8]) };
            if k.compress_in_place(cvref, blk, *block_len, *counter, *flags) {
                ensure!(cvref[..] == want16[..8], "{}: compress_in_place result differs from spec under guard placement", k.name());
            }
            ensure!(gcv.canary_intact(), "{}: compress_in_place wrote outside the 32-byte cv", k.name());
            gcv.as_mut_slice().copy_from_slice(&words(cv));
            let cvin: &[u32; 8] = unsafe { &*(gcv.ptr() as *const [u32; 8]) };
            if let Some(x) = k.compress_xof(cvin, blk, *block_len, *counter, *flags) {
                eq_bytes(&format!("{}: compress_xof under guard placement", k.name()), &x, &b3spec::bytes_from_words_16(&want16))?;
            }
            // the same through a caller-supplied output pointer of any alignment (raw C / assembly kernels)
            let mut gout = MBuf::new(64, pout, mis);
            if k.compress_xof_to(cvin, blk, *block_len, *counter, *flags, gout.ptr()) {
                eq_bytes(&format!("{}: compress_xof into a guard-placed output (misaligned by {})", k.name(), mis), gout.as_slice(), &b3spec::bytes_from_words_16(&want16))?;
                ensure!(gout.intact(), "{}: compress_xof wrote outside its 64-byte output", k.name());
            }
            let _ = gout.as_mut_slice();
            ensure!(gblock.intact() && gblock.as_slice() == block, "{}: wrote to its input block", k.name());
            Ok(())
        }
        KCase::HashMany { n, parents, key, counter, inc, flags, fs, fe, seed, .. } => {
            let n = *n as usize;
            let blocks = if *parents { 1 } else { 16 };
            let ilen = blocks * 64;
            let counter = if *inc { core::cmp::min(*counter, u64::MAX - n as u64) } else { *counter };
            let mut bufs: Vec<MBuf> = Vec::with_capacity(n);
            let mut st = *seed;
            for _ in 0..n {
                let mut g = MBuf::new(ilen, pin, mis);
                fill_random(g.as_mut_slice(), gen::splitmix(&mut st));
                bufs.push(g);
            }
            let ptr_bytes: Vec<u8> = bufs.iter().flat_map(|g| (g.ptr() as usize).to_le_bytes()).collect();
            let gptrs = GuardBuf::with_bytes(&ptr_bytes, pin);
            let ptrs: &[*const u8] = unsafe { core::slice::from_raw_parts(gptrs.ptr() as *const *const u8, n) };
            let gkey = GuardBuf::with_bytes(&words(key), pin);
            let keyref: &[u32; 8] = unsafe { &*(gkey.ptr() as *const [u32; 8]) };
            let mut gout = MBuf::new(n * 32, pout, mis);
            let mut want = vec![0u8; n * 32];
            for j in 0..n {
                let mut cv = *key;
                let cj = if *inc { counter + j as u64 } else { counter };
                for b in 0..blocks {
                    let mut f = *flags;
                    if b == 0 {
                        f |= *fs;
                    }
                    if b == blocks - 1 {
                        f |= *fe;
                    }
                    let blk: [u8; 64] = bufs[j].as_slice()[b * 64..b * 64 + 64].try_into().unwrap();
                    cv = b3spec::compress_cv_bytes(&cv, &blk, 64, cj, f);
                }
                want[j * 32..j * 32 + 32].copy_from_slice(&b3spec::bytes_from_words_8(&cv));
            }
            k.hash_many(ptrs, blocks, keyref, counter, *inc, *flags, *fs, *fe, gout.as_mut_slice(), n * 32);
            eq_bytes(&format!("{}: hash_many({}x{} blocks) under guard placement", k.name(), n, blocks), gout.as_slice(), &want)?;
            ensure!(gout.intact(), "{}: hash_many wrote outside its {}-byte output", k.name(), n * 32);
            ensure!(gkey.canary_intact() && gptrs.canary_intact() && bufs.iter().all(|g| g.intact()), "{}: hash_many wrote next to an input buffer", k.name());
            Ok(())
        }
        KCase::XofMany { cv, block_seed, block_len, counter, flags, n, .. } => {
            let n = core::cmp::max(1, *n as usize);
            let counter = core::cmp::min(*counter, u64::MAX - n as u64);
            let block = block_bytes(0, *block_seed);
            let gblock = MBuf::with_bytes(&block, pin, mis);
            let blk: &[u8; 64] = unsafe { &*(gblock.ptr() as *const [u8; 64]) };
            let gcv = GuardBuf::with_bytes(&words(cv), pin);
            let cvref: &[u32; 8] = unsafe { &*(gcv.ptr() as *const [u32; 8]) };
            let mut gout = MBuf::new(n * 64, pout, mis);
            if !k.xof_many(cvref, blk, *block_len, counter, *flags, gout.as_mut_slice(), n) {
                return Ok(());
            }
            let mut want = vec![0u8; n * 64];
            for i in 0..n {
                let w = b3spec::compress(cv, &b3spec::words_from_bytes_64(&block), counter + i as u64, *block_len as u32, *flags as u32);
                want[i * 64..i * 64 + 64].copy_from_slice(&b3spec::bytes_from_words_16(&w));
            }
            eq_bytes(&format!("{}: xof_many({} blocks) under guard placement", k.name(), n), gout.as_slice(), &want)?;
            ensure!(gout.intact(), "{}: xof_many wrote outside its {}-byte output", k.name(), n * 64);
            ensure!(gcv.canary_intact() && gblock.intact(), "{}: xof_many wrote next to an input", k.name());
            Ok(())
        }
    }
}

fn check_kernels_inner(c: &GCase) -> Result<(), String> {
    for k in all_kernels() {
        crate::guard::progress(k.name());
        guarded_kernel(c, k.as_ref())?;
    }
    Ok(())
}

pub fn check_kernels(c: &GCase) -> Result<(), String> {
    in_server("c07-kernels", c, check_kernels_inner)
}

pub fn classify_kernels(c: &GCase) -> Classes {
    let inner = c05::classify(&c.k);
    let mut cl = Classes::new(true).tag(c.mis % 16 != 0, "buffers-misaligned").tag(c.in_start_flush, "inputs=start-flush").tag(!c.in_start_flush, "inputs=end-flush").tag(c.out_start_flush, "output=start-flush").tag(!c.out_start_flush, "output=end-flush");
    for t in inner.tags {
        if t.starts_with("kernel=") || t.starts_with("blocks=") || t == "n=0" || t == "n>=16" {
            cl.tags.push(t);
        }
    }
    cl
}

fn kernels_strategy(tier: Tier) -> BoxedStrategy<GCase> {
    let mis = prop_oneof![3 => Just(0u8), 1 => 1u8..16, 1 => crate::gen::select(vec![1u8, 4, 8, 12, 15])];
    (c05::strategy(tier), any::<bool>(), any::<bool>(), mis).prop_map(|(k, a, b, mis)| GCase { k, in_start_flush: a, out_start_flush: b, mis }).boxed()
}

// ---------------------------------------------------------------------------
// ABI sentinels (hand-written assembly through the trampolines)
// ---------------------------------------------------------------------------
#[cfg(feature = "cshim")]
mod abi {
    use super::*;
    use crate::cshim::{self, Abi, RawKernel};
    use std::os::raw::c_void;

    const S_RBX: u64 = 0x1B1B1B1B1B1B1B01;
    const S_RBP: u64 = 0x2B2B2B2B2B2B2B02;
    const S_R12: u64 = 0x3C3C3C3C3C3C3C03;
    const S_R13: u64 = 0x4D4D4D4D4D4D4D04;
    const S_R14: u64 = 0x5E5E5E5E5E5E5E05;
    const S_R15: u64 = 0x6F6F6F6F6F6F6F06;
    const S_RDI: u64 = 0x7A7A7A7A7A7A7A07;
    const S_RSI: u64 = 0x8B8B8B8B8B8B8B08;

    fn xmm_sentinel(i: usize) -> (u64, u64) {
        // matches verif_xmm_sentinels in tramp.S (xmm6..xmm15)
        let n = (6 + i) as u64;
        let hi = n * 0x11;
        ((hi << 56) | n, (hi << 56) | 0x0011_1111_1111_1100 | n)
    }

    /// Call `f` with `args` through the trampoline of its convention and check
    /// every callee-saved register, rsp and the direction flag.
    pub unsafe fn call_checked(name: &str, what: &str, abi: Abi, f: *const c_void, args: &[u64; 10]) -> Result<(), String> {
        // every stack alignment modulo 64 at the call (the kernels re-align their frames with `and rsp, -64`)
        for pad in [0u64, 16, 32, 48] {
            call_checked_pad(name, &format!("{} [rsp pad {}]", what, pad), abi, f, args, pad)?;
        }
        Ok(())
    }

    unsafe fn call_checked_pad(name: &str, what: &str, abi: Abi, f: *const c_void, args: &[u64; 10], pad: u64) -> Result<(), String> {
        let mut out = [0u64; 32];
        match abi {
            Abi::SysV => {
                cshim::verif_tramp_sysv(f, args.as_ptr(), out.as_mut_ptr(), pad);
                let regs = [("rbx", S_RBX), ("rbp", S_RBP), ("r12", S_R12), ("r13", S_R13), ("r14", S_R14), ("r15", S_R15)];
                for (i, (r, s)) in regs.iter().enumerate() {
                    ensure!(out[i] == *s, "{} {}: callee-saved register {} not preserved (System V): {:#018x} instead of {:#018x}", name, what, r, out[i], s);
                }
                ensure!(out[6] == out[7], "{} {}: stack pointer not restored: {:#x} instead of {:#x}", name, what, out[6], out[7]);
                ensure!(out[8] & (1 << 10) == 0, "{} {}: returned with the direction flag set", name, what);
            }
            Abi::Win64 => {
                cshim::verif_tramp_win64(f, args.as_ptr(), out.as_mut_ptr(), pad);
                let regs = [("rbx", S_RBX), ("rbp", S_RBP), ("rdi", S_RDI), ("rsi", S_RSI), ("r12", S_R12), ("r13", S_R13), ("r14", S_R14), ("r15", S_R15)];
                for (i, (r, s)) in regs.iter().enumerate() {
                    ensure!(out[i] == *s, "{} {}: callee-saved register {} not preserved (Win64): {:#018x} instead of {:#018x}", name, what, r, out[i], s);
                }
                ensure!(out[8] == out[9], "{} {}: stack pointer not restored: {:#x} instead of {:#x}", name, what, out[8], out[9]);
                ensure!(out[10] & (1 << 10) == 0, "{} {}: returned with the direction flag set", name, what);
                for i in 0..10 {
                    let (lo, hi) = xmm_sentinel(i);
                    ensure!(out[12 + 2 * i] == lo && out[13 + 2 * i] == hi, "{} {}: callee-saved register xmm{} not preserved (Win64): {:#018x}{:016x}", name, what, 6 + i, out[13 + 2 * i], out[12 + 2 * i]);
                }
            }
        }
        Ok(())
    }

    fn one(c: &KCase, k: &RawKernel) -> Result<(), String> {
        match c {
            KCase::Compress { cv, block_kind, block_seed, block_len, counter, flags, .. } => {
                let block = block_bytes(*block_kind, *block_seed);
                let want16 = b3spec::compress(cv, &b3spec::words_from_bytes_64(&block), *counter, *block_len as u32, *flags as u32);
                if let Some(f) = k.cip {
                    // in place: restore the cv before each of the four stack alignments
                    for pad in [0u64, 16, 32, 48] {
                        let mut got = *cv;
                        let args = [got.as_mut_ptr() as u64, block.as_ptr() as u64, *block_len as u64, *counter, *flags as u64, 0, 0, 0, 0, 0];
                        unsafe { call_checked_pad(k.name, &format!("compress_in_place [rsp pad {}]", pad), k.abi, f, &args, pad)? };
                        ensure!(got[..] == want16[..8], "{}: compress_in_place via trampoline differs from spec", k.name);
                    }
                }
                if let Some(f) = k.cxof {
                    let mut out = [0u8; 64];
                    let args = [cv.as_ptr() as u64, block.as_ptr() as u64, *block_len as u64, *counter, *flags as u64, out.as_mut_ptr() as u64, 0, 0, 0, 0];
                    unsafe { call_checked(k.name, "compress_xof", k.abi, f, &args)? };
                    eq_bytes(&format!("{}: compress_xof via trampoline", k.name), &out, &b3spec::bytes_from_words_16(&want16))?;
                }
                Ok(())
            }
            KCase::HashMany { n, parents, key, counter, inc, flags, fs, fe, seed, .. } => {
                let n = *n as usize;
                let blocks = if *parents { 1usize } else { 16 };
                let ilen = blocks * 64;
                let counter = if *inc { core::cmp::min(*counter, u64::MAX - n as u64) } else { *counter };
                let mut store = vec![0u8; n * ilen + 1];
                fill_random(&mut store, *seed);
                let ptrs: Vec<*const u8> = (0..n).map(|j| store[j * ilen..].as_ptr()).collect();
                let mut out = vec![0u8; n * 32 + 1];
                let args = [ptrs.as_ptr() as u64, n as u64, blocks as u64, key.as_ptr() as u64, counter, *inc as u64, *flags as u64, *fs as u64, *fe as u64, out.as_mut_ptr() as u64];
                unsafe { call_checked(k.name, "hash_many", k.abi, k.hm, &args)? };
                let mut want = vec![0u8; n * 32];
                for j in 0..n {
                    let mut cv = *key;
                    let cj = if *inc { counter + j as u64 } else { counter };
                    for b in 0..blocks {
                        let mut f = *flags;
                        if b == 0 {
                            f |= *fs;
                        }
                        if b == blocks - 1 {
                            f |= *fe;
                        }
                        let blk: [u8; 64] = store[j * ilen + b * 64..j * ilen + b * 64 + 64].try_into().unwrap();
                        cv = b3spec::compress_cv_bytes(&cv, &blk, 64, cj, f);
                    }
                    want[j * 32..j * 32 + 32].copy_from_slice(&b3spec::bytes_from_words_8(&cv));
                }
                eq_bytes(&format!("{}: hash_many via trampoline", k.name), &out[..n * 32], &want)
            }
            KCase::XofMany { cv, block_seed, block_len, counter, flags, n, .. } => {
                let f = match k.xm {
                    Some(f) => f,
                    None => return Ok(()),
                };
                let n = core::cmp::max(1, *n as usize);
                let counter = core::cmp::min(*counter, u64::MAX - n as u64);
                let block = block_bytes(0, *block_seed);
                let mut out = vec![0u8; n * 64];
                let args = [cv.as_ptr() as u64, block.as_ptr() as u64, *block_len as u64, counter, *flags as u64, out.as_mut_ptr() as u64, n as u64, 0, 0, 0];
                unsafe { call_checked(k.name, "xof_many", k.abi, f, &args)? };
                let mut want = vec![0u8; n * 64];
                for i in 0..n {
                    let w = b3spec::compress(cv, &b3spec::words_from_bytes_64(&block), counter + i as u64, *block_len as u32, *flags as u32);
                    want[i * 64..i * 64 + 64].copy_from_slice(&b3spec::bytes_from_words_16(&w));
                }
                eq_bytes(&format!("{}: xof_many via trampoline", k.name), &out, &want)
            }
        }
    }

    /// The C dispatch layer contains inline assembly too (cpuid / xgetbv in the one-time CPU-feature detection): the
    /// first call into a dispatcher of every library build, with detection reset to "never run", goes through the
    /// System V trampoline like the kernels do.
    fn dispatch_first_call() -> Result<(), String> {
        for api in cshim::all_apis().iter().chain([cshim::api_tbb()].iter()) {
            crate::guard::progress(api.name);
            unsafe {
                *api.features = cshim::F_UNDEFINED;
                let args = [0u64; 10];
                let r = call_checked(api.name, "blake3_simd_degree() with CPU-feature detection on its first run", Abi::SysV, api.degree as *const c_void, &args);
                *api.features = cshim::F_UNDEFINED;
                r?;
            }
        }
        Ok(())
    }

    fn check_abi_inner(c: &KCase) -> Result<(), String> {
        for k in cshim::raw_kernel_table().iter().filter(|k| k.asm) {
            crate::guard::progress(k.name);
            one(c, k)?;
        }
        dispatch_first_call()
    }

    pub fn check_abi(c: &KCase) -> Result<(), String> {
        in_server("c07-abi", c, check_abi_inner)
    }

    // -----------------------------------------------------------------------
    // C API with the hasher object and every buffer against guard pages
    // -----------------------------------------------------------------------
    use crate::props::c06::{self, COp, InitC};
    use cshim::{CApi, CHasher, CHASHER_SIZE};

    #[derive(Clone, Debug, Serialize, Deserialize)]
    pub struct ACase {
        pub c: c06::Case,
        pub in_start_flush: bool,
        pub out_start_flush: bool,
        pub hasher_start_flush: bool,
    }

    unsafe fn init_guarded(api: &CApi, init: &InitC, h: *mut CHasher, pin: Place) {
        match init {
            InitC::Plain => (api.init)(h),
            InitC::Keyed(k) => {
                let g = GuardBuf::with_bytes(k, pin);
                (api.init_keyed)(h, g.ptr());
            }
            InitC::DeriveStr(c) => {
                let mut s = c.bytes();
                s.push(0);
                let g = GuardBuf::with_bytes(&s, pin);
                (api.init_derive_key)(h, g.ptr() as *const _);
            }
            InitC::DeriveRaw(c) => {
                let s = c.bytes();
                let g = GuardBuf::with_bytes(&s, pin);
                (api.init_derive_key_raw)(h, g.ptr() as *const c_void, s.len());
            }
        }
    }

    pub fn check_api(a: &ACase) -> Result<(), String> {
        if !a.c.mask.cpu_has() {
            return Ok(());
        }
        in_server("c07-api", a, check_api_inner)
    }

    fn check_api_inner(a: &ACase) -> Result<(), String> {
        let c = &a.c;
        {
            let api = c06::api_of(c.variant);
            unsafe { *api.features = cshim::mask_for(c.mask) };
            let pin = place(a.in_start_flush);
            let pout = place(a.out_start_flush);
            let data = c.content.expand(c.budget as usize);
            let mut cursor = 0usize;
            let gh = GuardBuf::new(CHASHER_SIZE, place(a.hasher_start_flush));
            let h = gh.ptr() as *mut CHasher;
            unsafe { init_guarded(&api, &c.init, h, pin) };
            let mut model = b3spec::Incr::new(c.init.kf());
            let probe = |model: &b3spec::Incr, seek: u64, k: usize, what: &str| -> Result<(), String> {
                let k = core::cmp::min(k as u64, u64::MAX - seek) as usize;
                let mut gout = GuardBuf::new(k, pout);
                unsafe { (api.finalize_seek)(h, seek, gout.ptr(), k) };
                eq_bytes(&format!("{}: {}: output under guard placement", api.name, what), gout.as_mut_slice(), &model.output().xof(seek, k))?;
                ensure!(gout.canary_intact(), "{}: {}: finalize wrote outside its {}-byte output", api.name, what, k);
                ensure!(gh.canary_intact(), "{}: {}: wrote outside the blake3_hasher object", api.name, what);
                Ok(())
            };
            for (i, op) in c.ops.iter().enumerate() {
                let what = format!("op #{} {:?}", i, op);
                crate::guard::progress(&what);
                match op {
                    COp::Update(sz) => {
                        let n = sz.resolve(model.len(), data.len() - cursor);
                        let g = GuardBuf::with_bytes(&data[cursor..cursor + n], pin);
                        cursor += n;
                        unsafe { (api.update)(h, g.ptr() as *const c_void, n) };
                        ensure!(g.canary_intact() && g.as_slice() == &data[cursor - n..cursor], "{}: {}: update wrote to its input", api.name, what);
                        model.push(g.as_slice());
                        ensure!(gh.canary_intact(), "{}: {}: update wrote outside the blake3_hasher object", api.name, what);
                    }
                    COp::UpdateNull => unsafe { (api.update)(h, core::ptr::null(), 0) },
                    COp::Finalize(k) => probe(&model, 0, *k as usize, &what)?,
                    COp::FinalizeSeek(s, k) => probe(&model, *s, *k as usize, &what)?,
                    COp::FinalizeNullZero(s) => unsafe { (api.finalize_seek)(h, *s, core::ptr::null_mut(), 0) },
                    COp::Reset => {
                        unsafe { (api.reset)(h) };
                        model.clear();
                    }
                    COp::Copy | COp::Swap => {}
                }
            }
            let r = probe(&model, 0, 130, "end of history");
            unsafe { *api.features = cshim::F_UNDEFINED };
            r
        }
    }

    pub fn classify_api(a: &ACase) -> Classes {
        let mut cl = c06::classify(&a.c);
        cl.nontrivial = true;
        cl.tag(a.hasher_start_flush, "hasher=start-flush").tag(!a.hasher_start_flush, "hasher=end-flush").tag(a.in_start_flush, "inputs=start-flush").tag(!a.in_start_flush, "inputs=end-flush")
    }

    pub fn api_strategy(tier: Tier) -> BoxedStrategy<ACase> {
        (c06::strategy(tier), any::<bool>(), any::<bool>(), any::<bool>())
            .prop_map(|(mut c, a, b, h)| {
                c.budget = core::cmp::min(c.budget, 96 * 1024);
                ACase { c, in_start_flush: a, out_start_flush: b, hasher_start_flush: h }
            })
            .boxed()
    }
}

pub fn subs() -> Vec<Box<dyn DynSub>> {
    let mut v: Vec<Box<dyn DynSub>> = vec![Box::new(PropSub::<GCase> {
        name: "kernels-guarded",
        rule: "proptest: C05 kernel argument tuples with cv, key, block, every input, the input-pointer array and the output each placed flush against a PROT_NONE page (end-flush or start-flush, canary on the open side), executed on every kernel of this build (Rust Platform levels; with cshim: C portable, C intrinsics, Unix assembly, Windows-GNU assembly) in a forked child; oracle = no fault, canaries intact, exact output vs spec; every case is non-trivial (>=1 flush buffer), distinct by (tuple, placement)",
        cases: (12_000, 120_000),
        strategy: kernels_strategy,
        classify: classify_kernels,
        check: check_kernels,
        known: None,
        crumb: false,
    })];
    #[cfg(feature = "cshim")]
    {
        v.push(Box::new(PropSub::<KCase> {
            name: "abi-sentinels",
            rule: "proptest: C05 tuples for every hand-written assembly routine (4 Unix files via a System V trampoline, 4 Windows-GNU files via a Win64 trampoline), and the first blake3_simd_degree() call of every C library build with CPU-feature detection reset (inline cpuid/xgetbv assembly in the dispatch layer); the trampoline loads sentinels into rbx, rbp, r12-r15 (+ rsi, rdi, xmm6-xmm15 for Win64), clears DF, records registers/rsp/rflags on return; oracle = all sentinels, rsp and DF intact and result = spec",
            cases: (12_000, 120_000),
            strategy: c05::strategy,
            classify: |c| {
                let mut cl = c05::classify(c);
                cl.nontrivial = true;
                cl
            },
            check: abi::check_abi,
            known: None,
            crumb: false,
        }));
        v.push(Box::new(PropSub::<abi::ACase> {
            name: "c-api-guarded",
            rule: "proptest: C06 histories with the blake3_hasher object, keys, context strings, every update input and every output buffer flush against PROT_NONE pages, in a forked child, for both library builds and every CPU-feature mask; oracle = no fault, canaries intact, exact out_len bytes = spec",
            cases: (6_000, 60_000),
            strategy: abi::api_strategy,
            classify: abi::classify_api,
            check: abi::check_api,
            known: None,
            crumb: false,
        }));
    }
    v
}
