//! C03 — extended output is one coherent, seekable byte stream.

use crate::ensure;
use crate::gen::{self, Content, ModeC};
use crate::runner::{eq_bytes, Classes, DynSub, PropSub, Tier};
use proptest::prelude::*;
use serde::{Deserialize, Serialize};

#[derive(Clone, Debug, Serialize, Deserialize)]
pub enum RootSrc {
    Input { mode: ModeC, len: usize, content: Content },
    /// hazmat::merge_subtrees_root_xof over two arbitrary child CVs
    Merge { mode: ModeC, left: [u8; 32], right: [u8; 32] },
}

#[derive(Clone, Debug, Serialize, Deserialize, PartialEq, Eq)]
pub enum Op {
    Fill(u32),
    Read(u32),
    ReadExact(u32),
    SetPosition(u64),
    SeekStart(u64),
    SeekCurrent(i64),
    SeekEnd(i64),
    Position,
    StreamPosition,
    /// copy the current reader into the other slot
    Clone,
    /// switch to the other slot (if it exists)
    Swap,
    /// n bytes through a std::io::Read adaptor: 0 = read_vectored into three slices, 1 = by_ref().take(n).read_to_end,
    /// 2 = bytes() one at a time (n capped at 300), 3 = io::copy from by_ref().take(n)
    ReadVia(u32, u8),
    /// Seek::rewind
    Rewind,
}

#[derive(Clone, Debug, Serialize, Deserialize)]
pub struct Case {
    pub root: RootSrc,
    pub ops: Vec<Op>,
}

pub const MAX_POS: u64 = u64::MAX; // the stream has 2^64-1 bytes: positions 0..=2^64-1

pub fn hazmat_mode<'a>(mode: &'a ModeC, ck: &'a mut [u8; 32]) -> blake3::hazmat::Mode<'a> {
    match mode {
        ModeC::Hash => blake3::hazmat::Mode::Hash,
        ModeC::Keyed(k) => blake3::hazmat::Mode::KeyedHash(k),
        ModeC::Derive(c) => {
            *ck = blake3::hazmat::hash_derive_key_context(&c.string());
            blake3::hazmat::Mode::DeriveKeyMaterial(ck)
        }
        ModeC::DeriveCk(k) => blake3::hazmat::Mode::DeriveKeyMaterial(k),
    }
}

pub fn make_root(root: &RootSrc) -> Result<(blake3::OutputReader, b3spec::Output), String> {
    match root {
        RootSrc::Input { mode, len, content } => {
            let input = content.expand(*len);
            let mut h = mode.hasher();
            h.update(&input);
            let spec = b3spec::root(&mode.kf(), &input);
            let r = h.finalize_xof();
            // S[0..32] is the hash
            eq_bytes("finalize() vs first 32 bytes of the spec stream", h.finalize().as_bytes(), &spec.xof(0, 32))?;
            Ok((r, spec))
        }
        RootSrc::Merge { mode, left, right } => {
            let mut ck = [0u8; 32];
            let m = hazmat_mode(mode, &mut ck);
            let r = blake3::hazmat::merge_subtrees_root_xof(left, right, m);
            let spec = b3spec::parent_output(&mode.kf(), &b3spec::words_from_bytes_32(left), &b3spec::words_from_bytes_32(right));
            let hash = blake3::hazmat::merge_subtrees_root(left, right, m);
            eq_bytes("merge_subtrees_root vs first 32 bytes of the spec stream", hash.as_bytes(), &spec.xof(0, 32))?;
            Ok((r, spec))
        }
    }
}

struct Slot {
    r: blake3::OutputReader,
    pos: u64,
}

pub fn check(c: &Case) -> Result<(), String> {
    let (r0, spec) = make_root(&c.root)?;
    ensure!(r0.position() == 0, "a new OutputReader starts at position {}", r0.position());
    let mut slots: Vec<Slot> = vec![Slot { r: r0, pos: 0 }];
    let mut cur = 0usize;
    for (i, op) in c.ops.iter().enumerate() {
        let what = format!("op #{} {:?} at model position {}", i, op, slots[cur].pos);
        match op {
            Op::Fill(n) | Op::Read(n) | Op::ReadExact(n) => {
                let s = &mut slots[cur];
                let n = core::cmp::min(*n as u64, MAX_POS - s.pos) as usize;
                let mut buf = vec![0xA5u8; n];
                match op {
                    Op::Fill(_) => s.r.fill(&mut buf),
                    #[cfg(feature = "full")]
                    Op::Read(_) => {
                        use std::io::Read;
                        let k = s.r.read(&mut buf).map_err(|e| format!("{}: read error {}", what, e))?;
                        ensure!(k == n, "{}: Read::read filled {} of {} bytes", what, k, n);
                    }
                    #[cfg(feature = "full")]
                    Op::ReadExact(_) => {
                        use std::io::Read;
                        s.r.read_exact(&mut buf).map_err(|e| format!("{}: read_exact error {}", what, e))?;
                    }
                    #[cfg(not(feature = "full"))]
                    _ => s.r.fill(&mut buf),
                    #[cfg(feature = "full")]
                    _ => unreachable!(),
                }
                let want = spec.xof(s.pos, n);
                eq_bytes(&format!("{}: {} output bytes vs spec S[p..p+n]", what, n), &buf, &want)?;
                s.pos += n as u64;
            }
            #[cfg(feature = "full")]
            Op::ReadVia(n, via) => {
                use std::io::Read;
                let s = &mut slots[cur];
                let mut n = core::cmp::min(*n as u64, MAX_POS - s.pos) as usize;
                if via % 4 == 2 {
                    n = core::cmp::min(n, 300);
                }
                let mut buf = vec![0xA5u8; n];
                match via % 4 {
                    0 => {
                        // the default read_vectored may fill only the first non-empty slice: repeat on what remains
                        let mut done = 0usize;
                        let mut guard = 0;
                        while done < n {
                            let rest = &mut buf[done..];
                            let a = rest.len() / 3;
                            let (x, yz) = rest.split_at_mut(a);
                            let b = yz.len() / 2;
                            let (y, z) = yz.split_at_mut(b);
                            let mut bufs = [std::io::IoSliceMut::new(x), std::io::IoSliceMut::new(y), std::io::IoSliceMut::new(z)];
                            let k = s.r.read_vectored(&mut bufs).map_err(|e| format!("{}: read_vectored error {}", what, e))?;
                            ensure!(k > 0 && k <= n - done, "{}: read_vectored returned {} with {} bytes of room", what, k, n - done);
                            done += k;
                            guard += 1;
                            ensure!(guard < 10_000, "ENGINE: read_vectored loop does not terminate");
                        }
                    }
                    1 => {
                        let mut v = Vec::new();
                        let k = (&mut s.r).take(n as u64).read_to_end(&mut v).map_err(|e| format!("{}: read_to_end error {}", what, e))?;
                        ensure!(k == n && v.len() == n, "{}: take({}).read_to_end returned {} bytes", what, n, k);
                        buf.copy_from_slice(&v);
                    }
                    2 => {
                        for (j, b) in (&mut s.r).bytes().take(n).enumerate() {
                            buf[j] = b.map_err(|e| format!("{}: bytes() error {}", what, e))?;
                        }
                    }
                    _ => {
                        let mut v: Vec<u8> = Vec::new();
                        let k = std::io::copy(&mut (&mut s.r).take(n as u64), &mut v).map_err(|e| format!("{}: io::copy error {}", what, e))?;
                        ensure!(k == n as u64 && v.len() == n, "{}: io::copy moved {} of {} bytes", what, k, n);
                        buf.copy_from_slice(&v);
                    }
                }
                let want = spec.xof(s.pos, n);
                eq_bytes(&format!("{}: {} output bytes through a Read adaptor vs spec S[p..p+n]", what, n), &buf, &want)?;
                s.pos += n as u64;
                ensure!(s.r.position() == s.pos, "{}: position() = {} after the adaptor consumed {} bytes, expected {}", what, s.r.position(), n, s.pos);
            }
            #[cfg(feature = "full")]
            Op::Rewind => {
                use std::io::Seek;
                let s = &mut slots[cur];
                s.r.rewind().map_err(|e| format!("{}: rewind error {}", what, e))?;
                s.pos = 0;
                ensure!(s.r.position() == 0, "{}: position() = {} after rewind", what, s.r.position());
            }
            #[cfg(not(feature = "full"))]
            Op::ReadVia(..) | Op::Rewind => {}
            Op::SetPosition(p) => {
                let s = &mut slots[cur];
                s.r.set_position(*p);
                s.pos = *p;
            }
            #[cfg(feature = "full")]
            Op::SeekStart(p) => {
                use std::io::Seek;
                let s = &mut slots[cur];
                let got = s.r.seek(std::io::SeekFrom::Start(*p)).map_err(|e| format!("{}: seek error {}", what, e))?;
                ensure!(got == *p, "{}: seek returned {} expected {}", what, got, p);
                s.pos = *p;
            }
            #[cfg(feature = "full")]
            Op::SeekCurrent(d) => {
                use std::io::Seek;
                let s = &mut slots[cur];
                let target = s.pos as i128 + *d as i128;
                // beyond 2^64-1 is unspecified: clamp the generated offset into the domain
                let d = if target > MAX_POS as i128 { (MAX_POS - s.pos) as i64 } else { *d };
                let target = s.pos as i128 + d as i128;
                let res = s.r.seek(std::io::SeekFrom::Current(d));
                if target < 0 {
                    ensure!(res.is_err(), "{}: seek to negative position {} returned {:?}", what, target, res);
                } else {
                    let got = res.map_err(|e| format!("{}: seek error {}", what, e))?;
                    ensure!(got == target as u64, "{}: seek returned {} expected {}", what, got, target);
                    s.pos = target as u64;
                }
            }
            #[cfg(feature = "full")]
            Op::SeekEnd(d) => {
                use std::io::Seek;
                let s = &mut slots[cur];
                let res = s.r.seek(std::io::SeekFrom::End(*d));
                ensure!(res.is_err(), "{}: seek relative to the end returned {:?}", what, res);
            }
            #[cfg(not(feature = "full"))]
            Op::SeekStart(p) => {
                let s = &mut slots[cur];
                s.r.set_position(*p);
                s.pos = *p;
            }
            #[cfg(not(feature = "full"))]
            Op::SeekCurrent(_) | Op::SeekEnd(_) | Op::StreamPosition => {}
            Op::Position => {}
            #[cfg(feature = "full")]
            Op::StreamPosition => {
                use std::io::Seek;
                let s = &mut slots[cur];
                let got = s.r.stream_position().map_err(|e| format!("{}: stream_position error {}", what, e))?;
                ensure!(got == s.pos, "{}: stream_position() = {} expected {}", what, got, s.pos);
            }
            Op::Clone => {
                let copy = Slot { r: slots[cur].r.clone(), pos: slots[cur].pos };
                if slots.len() == 1 {
                    slots.push(copy);
                } else if i % 2 == 1 {
                    // every other time: Clone::clone_from into the other, already used reader
                    let other = 1 - cur;
                    let (x, y) = slots.split_at_mut(1);
                    let (dst, src) = if cur == 0 { (&mut y[0], &x[0]) } else { (&mut x[0], &y[0]) };
                    dst.r.clone_from(&src.r);
                    dst.pos = src.pos;
                    ensure!(slots[other].r.position() == slots[other].pos, "{}: position() = {} after clone_from from a reader at {}", what, slots[other].r.position(), slots[other].pos);
                } else {
                    let other = 1 - cur;
                    slots[other] = copy;
                }
            }
            Op::Swap => {
                if slots.len() == 2 {
                    cur = 1 - cur;
                }
            }
        }
        // position is observable after every op (failed seeks must leave it unchanged)
        let s = &slots[cur];
        ensure!(s.r.position() == s.pos, "{}: position() = {} but model position is {}", what, s.r.position(), s.pos);
    }
    // final probe: each live reader still yields the stream at its position
    for s in slots.iter_mut() {
        let n = core::cmp::min(130u64, MAX_POS - s.pos) as usize;
        let mut buf = vec![0u8; n];
        s.r.fill(&mut buf);
        eq_bytes(&format!("final probe at position {}", s.pos), &buf, &spec.xof(s.pos, n))?;
    }
    Ok(())
}

pub fn classify(c: &Case) -> Classes {
    let mut pos: u64 = 0;
    let mut poss = vec![0u64];
    let mut cur = 0usize;
    let mut seeked = false;
    let mut nt_read = false;
    let mut cross32 = false;
    let mut near_end = false;
    let mut failed_seek = false;
    let mut big = false;
    let mut adaptors = false;
    for op in &c.ops {
        match op {
            Op::Rewind => {
                pos = 0;
                seeked = true;
            }
            Op::Fill(n) | Op::Read(n) | Op::ReadExact(n) | Op::ReadVia(n, _) => {
                let mut n = core::cmp::min(*n as u64, MAX_POS - pos);
                if let Op::ReadVia(_, via) = op {
                    adaptors = true;
                    if via % 4 == 2 {
                        n = n.min(300);
                    }
                }
                if n > 0 {
                    if pos % 64 != 0 || n >= 17 * 64 {
                        nt_read = true;
                    }
                    let first = pos / 64;
                    let last = (pos + n - 1) / 64;
                    if first < (1u64 << 32) && last >= (1u64 << 32) {
                        cross32 = true;
                    }
                    if MAX_POS - (pos + n) < 4096 {
                        near_end = true;
                    }
                    big |= n >= 16 * 64;
                }
                pos += n;
            }
            Op::SetPosition(p) | Op::SeekStart(p) => {
                pos = *p;
                seeked = true;
            }
            Op::SeekCurrent(d) => {
                let t = pos as i128 + *d as i128;
                if t < 0 {
                    failed_seek = true;
                } else {
                    pos = core::cmp::min(t, MAX_POS as i128) as u64;
                    seeked = true;
                }
            }
            Op::SeekEnd(_) => failed_seek = true,
            Op::Clone => {
                if poss.len() == 1 {
                    poss.push(pos);
                } else {
                    poss[1 - cur] = pos;
                }
            }
            Op::Swap => {
                if poss.len() == 2 {
                    poss[cur] = pos;
                    cur = 1 - cur;
                    pos = poss[cur];
                }
            }
            _ => {}
        }
    }
    let (single_chunk, parent) = match &c.root {
        RootSrc::Input { len, .. } => (*len <= 1024, *len > 1024),
        RootSrc::Merge { .. } => (false, true),
    };
    Classes::new(seeked && nt_read)
        .tag(single_chunk, "root=single-chunk")
        .tag(parent, "root=parent-node")
        .tag(matches!(c.root, RootSrc::Merge { .. }), "root=merge_subtrees_root_xof")
        .tag(cross32, "read-crosses-block-counter-2^32")
        .tag(near_end, "read-within-4KiB-of-2^64-1")
        .tag(failed_seek, "failing-seek(negative-or-End)")
        .tag(big, "read>=16-blocks")
        .tag(adaptors, "std-Read-adaptors(read_vectored/take+read_to_end/bytes/io::copy)")
        .tag(poss.len() == 2, "clone")
}

fn root_strategy() -> BoxedStrategy<RootSrc> {
    let len = prop_oneof![
        3 => crate::gen::select(vec![0usize, 1, 31, 32, 63, 64, 65, 127, 128, 1023, 1024, 1025, 2048, 2049, 3072, 4096]),
        2 => 0usize..=1024,
        2 => 1025usize..=4096,
        1 => 4097usize..=40_000,
    ];
    prop_oneof![
        5 => (gen::mode4(), len, gen::content()).prop_map(|(mode, len, content)| RootSrc::Input { mode, len, content }),
        1 => (gen::mode4(), gen::key32(), gen::key32()).prop_map(|(mode, left, right)| RootSrc::Merge { mode, left, right }),
    ]
    .boxed()
}

fn op_strategy(tier: Tier) -> BoxedStrategy<Op> {
    let maxn = tier.pick(3000u32, 65_536u32);
    let n = prop_oneof![
        1 => Just(0u32),
        4 => 1u32..=130,
        3 => crate::gen::select(vec![1u32, 16, 31, 32, 33, 63, 64, 65, 96, 127, 128, 129, 192, 1023, 1024, 1025, 1088, 2048]),
        3 => 0u32..=maxn,
        // long reads: many iterations of the widest xof_many loop in one call; now and then more than 4 MiB (2^16 blocks) at once
        1 => prop_oneof![200 => 0u32..=tier.pick(300_000u32, 5_000_000u32), 1 => 4_194_000u32..=9_000_000],
    ];
    prop_oneof![
        6 => n.clone().prop_map(Op::Fill),
        2 => n.clone().prop_map(Op::Read),
        1 => n.clone().prop_map(Op::ReadExact),
        2 => (n, 0u8..4).prop_map(|(n, via)| Op::ReadVia(n, via)),
        1 => Just(Op::Rewind),
        4 => gen::position_lattice().prop_map(Op::SetPosition),
        2 => gen::position_lattice().prop_map(Op::SeekStart),
        3 => prop_oneof![
            3 => -200i64..=200,
            1 => crate::gen::select(vec![i64::MIN, i64::MIN + 1, -(1i64 << 38), 1i64 << 38, (1i64 << 38) - 64 * 20, i64::MAX]),
            1 => any::<i64>(),
        ].prop_map(Op::SeekCurrent),
        1 => any::<i64>().prop_map(Op::SeekEnd),
        1 => crate::gen::select(vec![-1i64, 0, 1]).prop_map(Op::SeekEnd),
        1 => Just(Op::Position),
        1 => Just(Op::StreamPosition),
        1 => Just(Op::Clone),
        1 => Just(Op::Swap),
    ]
    .boxed()
}

pub fn strategy(tier: Tier) -> BoxedStrategy<Case> {
    let max_ops = tier.pick(30usize, 80usize);
    (root_strategy(), prop::collection::vec(op_strategy(tier), 0..=max_ops)).prop_map(|(root, ops)| Case { root, ops }).boxed()
}

pub fn subs() -> Vec<Box<dyn DynSub>> {
    vec![Box::new(PropSub::<Case> {
        name: "streams",
        rule: "proptest: root state (mode x input biased to block/chunk edges, or merge_subtrees_root_xof over random CVs) x 0-30 ops (0-80 thorough) of fill/read/read_exact/read_vectored/take+read_to_end/bytes/io::copy/rewind/set_position/seek(Start|Current|End)/position/stream_position/clone/clone_from/swap; positions from the 64*K lattice (small, 2^32-block edge, 2^33, 2^64-1-d, random), reads clamped to stay <= 2^64-1; model = u64 position + spec S[p..p+n]; non-trivial = a successful seek/set_position and a read starting mid-block or spanning >=17 blocks",
        cases: (200_000, 2_000_000),
        strategy,
        classify,
        check,
        known: None,
        crumb: false,
    })]
}
