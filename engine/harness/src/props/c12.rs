//! C12 — b3sum prints the library's output and --check's exit status tells the truth.
//!
//! Drives the real `b3sum` binary built from /repo/b3sum/src/main.rs (engine/b3shim).
#![cfg(feature = "b3")]

use crate::ensure;
use crate::gen::{self, Content, CtxSpec};
use crate::runner::{hex, Classes, DynSub, PropSub, Tier};
use proptest::prelude::*;
use serde::{Deserialize, Serialize};
use std::ffi::OsString;
use std::io::Write;
use std::os::unix::ffi::OsStringExt;
use std::path::PathBuf;
use std::process::{Command, Stdio};

fn b3sum_bin() -> PathBuf {
    let exe = std::env::current_exe().expect("current_exe");
    exe.parent().unwrap().join("b3sum")
}

struct Out {
    code: Option<i32>,
    stdout: Vec<u8>,
    stderr: Vec<u8>,
}

fn run(dir: &std::path::Path, args: &[OsString], stdin: Option<&[u8]>) -> Result<Out, String> {
    let mut cmd = Command::new(b3sum_bin());
    // without --num-threads b3sum sizes its pool from RAYON_NUM_THREADS or the core count; 16 shards share the machine
    cmd.current_dir(dir).args(args).stdout(Stdio::piped()).stderr(Stdio::piped()).env("RAYON_NUM_THREADS", "2");
    cmd.stdin(if stdin.is_some() { Stdio::piped() } else { Stdio::null() });
    let mut child = cmd.spawn().map_err(|e| format!("ENGINE: cannot run {:?}: {}", b3sum_bin(), e))?;
    if let Some(data) = stdin {
        let mut si = child.stdin.take().unwrap();
        // short inputs (keys, small checkfiles) arrive in two writes with a pause in between every other time: a reader
        // must keep reading until end of input (what it sees then depends on the pipe, not on the sender's chunking)
        if data.len() >= 2 && data.len() <= 64 && data[data.len() / 2] % 2 == 1 {
            let cut = 1 + (data[0] as usize) % (data.len() - 1);
            let _ = si.write_all(&data[..cut]);
            let _ = si.flush();
            std::thread::sleep(std::time::Duration::from_millis(25));
            let _ = si.write_all(&data[cut..]);
        } else if data.len() > 32 * 1024 {
            // a long input is written from a thread of its own: the child's output is collected meanwhile (both pipes are finite)
            let owned = data.to_vec();
            let t = std::thread::spawn(move || {
                let _ = si.write_all(&owned);
            });
            let o = child.wait_with_output().map_err(|e| format!("ENGINE: wait: {}", e))?;
            let _ = t.join();
            return Ok(Out { code: o.status.code(), stdout: o.stdout, stderr: o.stderr });
        } else {
            let _ = si.write_all(data);
        }
    }
    let o = child.wait_with_output().map_err(|e| format!("ENGINE: wait: {}", e))?;
    Ok(Out { code: o.status.code(), stdout: o.stdout, stderr: o.stderr })
}

/// Run b3sum with standard input redirected from a regular file whose read offset has been advanced by `skip`
/// bytes (what `{ read hdr; b3sum; } < file` gives): the "standard input" is what remains from the offset on.
fn run_stdin_file(dir: &std::path::Path, args: &[OsString], data: &[u8], skip: usize) -> Result<Out, String> {
    use std::io::{Seek, SeekFrom};
    let p = dir.join("stdin-source.bin");
    std::fs::write(&p, data).map_err(|e| format!("ENGINE: write: {}", e))?;
    let mut f = std::fs::File::open(&p).map_err(|e| format!("ENGINE: open: {}", e))?;
    f.seek(SeekFrom::Start(skip as u64)).map_err(|e| format!("ENGINE: seek: {}", e))?;
    let mut cmd = Command::new(b3sum_bin());
    cmd.current_dir(dir).args(args).stdout(Stdio::piped()).stderr(Stdio::piped()).env("RAYON_NUM_THREADS", "2").stdin(Stdio::from(f));
    let o = cmd.output().map_err(|e| format!("ENGINE: cannot run {:?}: {}", b3sum_bin(), e))?;
    let _ = std::fs::remove_file(&p);
    Ok(Out { code: o.status.code(), stdout: o.stdout, stderr: o.stderr })
}

struct TempDir(PathBuf);
impl TempDir {
    fn new() -> Result<Self, String> {
        use std::sync::atomic::{AtomicU64, Ordering};
        static N: AtomicU64 = AtomicU64::new(0);
        let p = crate::hist::scratch_dir().join(format!("c12-{}", N.fetch_add(1, Ordering::Relaxed)));
        std::fs::create_dir_all(&p).map_err(|e| format!("ENGINE: mkdir: {}", e))?;
        Ok(TempDir(p))
    }
}
impl Drop for TempDir {
    fn drop(&mut self) {
        let _ = std::fs::remove_dir_all(&self.0);
    }
}

/// File names (bytes; never '/' or NUL). Index into a table of hostile names + generated simple ones.
pub const NAMES: &[&[u8]] = &[
    b"plain.txt", b"with space", b"two  spaces", b"tail ", b" lead", b"back\\slash", b"new\nline", b"cr\rname", b"literal\\n", b") = x", b"BLAKE3 (f", b"BLAKE3 (a  b) = c",
    "\u{e9}t\u{e9}".as_bytes(), "\u{65e5}\u{672c}".as_bytes(), b"bad\x80utf8", b"fffd\xef\xbf\xbd", b"-dash", b"tab\tname", b"quote\"'", b"a",
];

fn name_bytes(i: u8, k: usize) -> Vec<u8> {
    let mut n = NAMES[i as usize % NAMES.len()].to_vec();
    if n.first() == Some(&b'-') {
        // avoid being parsed as an option: pass as ./-dash
        n = [b"./".as_slice(), &n].concat();
    }
    // make names unique within a case
    n.extend_from_slice(format!(".{}", k).as_bytes());
    n
}

/// Independent model of the documented line format: lossy UTF-8, then backslash/LF/CR escaping with a leading backslash.
fn model_name(name: &[u8]) -> (String, bool) {
    let s = String::from_utf8_lossy(name).to_string();
    if s.contains('\\') || s.contains('\n') || s.contains('\r') {
        (s.replace('\\', "\\\\").replace('\n', "\\n").replace('\r', "\\r"), true)
    } else {
        (s, false)
    }
}

fn representable(name: &[u8]) -> bool {
    match std::str::from_utf8(name) {
        Ok(s) => !s.contains('\u{FFFD}') && !s.contains('\0') && !s.is_empty(),
        Err(_) => false,
    }
}

#[derive(Clone, Debug, Serialize, Deserialize)]
pub struct FileSpec {
    pub name: u8,
    pub len: u32,
    pub content: Content,
    /// 0 = a regular file; 1 = the path does not exist; 2 = the path is a directory (b3sum reports it, goes on with the
    /// other arguments and exits non-zero)
    #[serde(default)]
    pub bad: u8,
}

#[derive(Clone, Debug, Serialize, Deserialize, PartialEq, Eq)]
pub enum ModeArg {
    None,
    /// key bytes on stdin (any length; only 32 is valid)
    Keyed(Vec<u8>),
    Derive(CtxSpec),
}

#[derive(Clone, Debug, Serialize, Deserialize)]
pub struct HashCase {
    pub files: Vec<FileSpec>,
    pub mode: ModeArg,
    pub length: Option<u16>,
    pub seek: Option<u64>,
    pub no_mmap: bool,
    pub num_threads: Option<u8>,
    /// 0 default, 1 --no-names, 2 --tag, 3 --raw (first file only)
    pub output: u8,
}

fn kf_of(mode: &ModeArg) -> Option<b3spec::KeyFlags> {
    match mode {
        ModeArg::None => Some(b3spec::KeyFlags::hash()),
        ModeArg::Keyed(k) => {
            let a: [u8; 32] = k.as_slice().try_into().ok()?;
            Some(b3spec::KeyFlags::keyed(&a))
        }
        ModeArg::Derive(c) => Some(b3spec::KeyFlags::derive_key(c.string().as_bytes())),
    }
}

pub fn check_hash(c: &HashCase) -> Result<(), String> {
    let dir = TempDir::new()?;
    let nfiles = if c.output % 4 == 3 { 1 } else { c.files.len() };
    let mut names = Vec::new();
    let mut datas = Vec::new();
    for (k, f) in c.files.iter().take(nfiles).enumerate() {
        let n = name_bytes(f.name, k);
        let d = f.content.expand(f.len as usize);
        match f.bad % 3 {
            0 => std::fs::write(dir.0.join(OsString::from_vec(n.clone())), &d).map_err(|e| format!("ENGINE: write file: {}", e))?,
            1 => {}
            _ => std::fs::create_dir(dir.0.join(OsString::from_vec(n.clone()))).map_err(|e| format!("ENGINE: mkdir: {}", e))?,
        }
        names.push(n);
        datas.push(d);
    }
    let bad: Vec<bool> = c.files.iter().take(nfiles).map(|f| f.bad % 3 != 0).collect();
    let any_bad = bad.iter().any(|b| *b);
    let mut args: Vec<OsString> = Vec::new();
    let mut stdin: Option<Vec<u8>> = None;
    match &c.mode {
        ModeArg::None => {}
        ModeArg::Keyed(k) => {
            args.push("--keyed".into());
            stdin = Some(k.clone());
        }
        ModeArg::Derive(ctx) => {
            // one argument, so that a context starting with '-' is not taken for an option
            args.push(format!("--derive-key={}", ctx.string()).into());
        }
    }
    let length = c.length.map(|l| l as u64).unwrap_or(32);
    let seek = c.seek.unwrap_or(0);
    let length = core::cmp::min(length, u64::MAX - seek);
    // the default 32 bytes would run past the end of the stream (unspecified): pass the clamped length
    if c.length.is_some() || seek > u64::MAX - 32 {
        args.push("--length".into());
        args.push(length.to_string().into());
    }
    if c.seek.is_some() {
        args.push("--seek".into());
        args.push(seek.to_string().into());
    }
    if c.no_mmap {
        args.push("--no-mmap".into());
    }
    if let Some(t) = c.num_threads {
        args.push("--num-threads".into());
        args.push(t.to_string().into());
    }
    match c.output % 4 {
        1 => args.push("--no-names".into()),
        2 => args.push("--tag".into()),
        3 => args.push("--raw".into()),
        _ => {}
    }
    args.push("--".into());
    for n in &names {
        args.push(OsString::from_vec(n.clone()));
    }
    let out = run(&dir.0, &args, stdin.as_deref())?;
    let kf = match kf_of(&c.mode) {
        Some(kf) => kf,
        None => {
            // a key that is not 32 bytes must be refused
            ensure!(out.code != Some(0), "b3sum --keyed exited 0 with a {}-byte key on stdin", if let ModeArg::Keyed(k) = &c.mode { k.len() } else { 0 });
            ensure!(out.stdout.is_empty(), "b3sum --keyed printed a digest although the key was refused");
            return Ok(());
        }
    };
    let mut want: Vec<u8> = Vec::new();
    for ((n, d), is_bad) in names.iter().zip(datas.iter()).zip(bad.iter()) {
        if *is_bad {
            continue; // nothing at all may be printed on stdout for an argument that cannot be hashed
        }
        let digest = b3spec::root(&kf, d).xof(seek, length as usize);
        let (mn, esc) = model_name(n);
        match c.output % 4 {
            3 => want.extend_from_slice(&digest),
            1 => want.extend_from_slice(format!("{}\n", hex(&digest)).as_bytes()),
            2 => want.extend_from_slice(format!("{}BLAKE3 ({}) = {}\n", if esc { "\\" } else { "" }, mn, hex(&digest)).as_bytes()),
            _ => want.extend_from_slice(format!("{}{}  {}\n", if esc { "\\" } else { "" }, hex(&digest), mn).as_bytes()),
        }
    }
    if any_bad {
        ensure!(out.code.is_some() && out.code != Some(0), "b3sum {:?} exited with {:?} although an argument is missing or a directory", args, out.code);
        ensure!(!out.stderr.is_empty(), "b3sum {:?} printed no diagnostic for a missing / directory argument", args);
    } else {
        ensure!(out.code == Some(0), "b3sum {:?} exited with {:?}; stderr: {}", args, out.code, String::from_utf8_lossy(&out.stderr));
    }
    if out.stdout != want {
        return Err(format!(
            "b3sum {:?} printed\n  {:?}\nexpected (spec S[{}..+{}] of each file, documented line format)\n  {:?}",
            args,
            String::from_utf8_lossy(&out.stdout),
            seek,
            length,
            String::from_utf8_lossy(&want)
        ));
    }
    // round trip through the real --check when the flags allow it
    if !any_bad && c.mode == ModeArg::None && c.length.is_none() && seek <= u64::MAX - 32 && (c.output % 4 == 0 || c.output % 4 == 2) {
        let mut cargs: Vec<OsString> = vec!["--check".into()];
        if c.seek.is_some() {
            cargs.push("--seek".into());
            cargs.push(seek.to_string().into());
        }
        if c.no_mmap {
            cargs.push("--no-mmap".into());
        }
        cargs.push("-".into());
        let chk = run(&dir.0, &cargs, Some(&out.stdout))?;
        let all_rep = names.iter().all(|n| representable(n));
        if all_rep {
            ensure!(chk.code == Some(0), "b3sum --check rejects b3sum's own output {:?}: exit {:?}, stdout {:?}, stderr {:?}", String::from_utf8_lossy(&out.stdout), chk.code, String::from_utf8_lossy(&chk.stdout), String::from_utf8_lossy(&chk.stderr));
            let oks = chk.stdout.split(|b| *b == b'\n').filter(|l| l.ends_with(b": OK")).count();
            ensure!(oks == names.len(), "b3sum --check printed {} OK lines for {} entries: {:?}", oks, names.len(), String::from_utf8_lossy(&chk.stdout));
        } else {
            ensure!(chk.code != Some(0), "b3sum --check exited 0 although a path in the checkfile cannot be represented (invalid UTF-8 / U+FFFD)");
        }
    }
    Ok(())
}

pub fn classify_hash(c: &HashCase) -> Classes {
    let mut flags = 0;
    flags += (c.mode != ModeArg::None) as u32 + c.length.is_some() as u32 + c.seek.is_some() as u32 + c.no_mmap as u32 + c.num_threads.is_some() as u32 + (c.output % 4 != 0) as u32;
    let hostile = c.files.iter().any(|f| (f.name as usize % NAMES.len()) != 0 && (f.name as usize % NAMES.len()) != 19);
    Classes::new(flags >= 2)
        .tag(matches!(c.mode, ModeArg::Keyed(ref k) if k.len() == 32), "--keyed")
        .tag(matches!(c.mode, ModeArg::Keyed(ref k) if k.len() != 32), "--keyed-wrong-key-length")
        .tag(matches!(c.mode, ModeArg::Derive(_)), "--derive-key")
        .tag(c.length.is_some(), "--length")
        .tag(c.seek.is_some(), "--seek")
        .tag(c.seek.map(|s| s >= (1 << 38)).unwrap_or(false), "--seek>=2^38")
        .tag(c.no_mmap, "--no-mmap")
        .tag(c.num_threads.is_some(), "--num-threads")
        .tag(c.output % 4 == 1, "--no-names")
        .tag(c.output % 4 == 2, "--tag")
        .tag(c.output % 4 == 3, "--raw")
        .tag(hostile, "hostile-file-name")
        .tag(c.files.iter().any(|f| f.len >= 16384), "file>=16KiB(mmap)")
        .tag(c.files.iter().any(|f| f.len == 0), "empty-file")
        .tag(c.files.iter().any(|f| f.bad % 3 == 1), "missing-argument-among-files")
        .tag(c.files.iter().any(|f| f.bad % 3 == 2), "directory-argument-among-files")
}

// ---------------------------------------------------------------------------
// files of this system that cannot be memory-mapped or have no length
// ---------------------------------------------------------------------------
#[derive(Clone, Debug, Serialize, Deserialize)]
pub struct SpecialCase {
    pub path: String,
    /// 0 = default flags, 1 = --no-mmap, 2 = --num-threads 1, 3 = --tag --length 100
    pub flags: u8,
}

pub fn check_special(c: &SpecialCase) -> Result<(), String> {
    let p = std::path::Path::new(&c.path);
    let before = match std::fs::read(p) {
        Ok(b) => b,
        Err(_) => return Ok(()), // not present / readable here
    };
    let dir = TempDir::new()?;
    let mut args: Vec<OsString> = Vec::new();
    let mut n = 32usize;
    match c.flags % 4 {
        1 => args.push("--no-mmap".into()),
        2 => {
            args.push("--num-threads".into());
            args.push("1".into());
        }
        3 => {
            args.push("--tag".into());
            args.push("--length".into());
            args.push("100".into());
            n = 100;
        }
        _ => {}
    }
    args.push(c.path.clone().into());
    let out = run(&dir.0, &args, None)?;
    if std::fs::read(p).unwrap_or_default() != before {
        return Ok(()); // content is not stable on this system: no verdict
    }
    let digest = hex(&b3spec::root(&b3spec::KeyFlags::hash(), &before).xof(0, n));
    let want = if c.flags % 4 == 3 { format!("BLAKE3 ({}) = {}\n", c.path, digest) } else { format!("{}  {}\n", digest, c.path) };
    ensure!(out.code == Some(0), "b3sum {:?} exited with {:?}; stderr: {}", args, out.code, String::from_utf8_lossy(&out.stderr));
    ensure!(out.stdout == want.as_bytes(), "b3sum {:?} ({} bytes, cannot be memory-mapped or has no length) printed {:?}, expected {:?}", args, before.len(), String::from_utf8_lossy(&out.stdout), want);
    Ok(())
}

// ---------------------------------------------------------------------------
// many failures in one run (the exit status must stay non-zero however many there are)
// ---------------------------------------------------------------------------
#[derive(Clone, Debug, Serialize, Deserialize)]
pub struct ManyCase {
    pub failures: u32,
    /// 0 = --check with that many entries for missing files (+1 good entry), 1 = that many missing arguments (+1 file),
    /// 2 = --check with that many stale entries (+1 good entry)
    pub kind: u8,
}

pub fn check_many(c: &ManyCase) -> Result<(), String> {
    let dir = TempDir::new()?;
    std::fs::write(dir.0.join("good"), b"hi\n").map_err(|e| format!("ENGINE: {}", e))?;
    let good_hex = hex(&b3spec::root(&b3spec::KeyFlags::hash(), b"hi\n").hash());
    let n = c.failures as usize;
    match c.kind % 3 {
        1 => {
            let mut args: Vec<OsString> = Vec::new();
            for i in 0..n {
                args.push(format!("missing-{}", i).into());
            }
            args.push("good".into());
            let out = run(&dir.0, &args, None)?;
            ensure!(out.code.is_some() && out.code != Some(0), "b3sum with {} missing arguments exited with {:?}", n, out.code);
            ensure!(out.stdout == format!("{}  good\n", good_hex).as_bytes(), "b3sum with {} missing arguments and one file printed {:?}", n, String::from_utf8_lossy(&out.stdout));
        }
        k => {
            let mut text = String::new();
            if k == 2 {
                std::fs::write(dir.0.join("stale"), b"changed").map_err(|e| format!("ENGINE: {}", e))?;
            }
            for i in 0..n {
                if k == 2 {
                    text.push_str(&format!("{}  stale\n", good_hex));
                } else {
                    text.push_str(&format!("{}  missing-{}\n", good_hex, i));
                }
            }
            text.push_str(&format!("{}  good\n", good_hex));
            let out = run(&dir.0, &["--check".into(), "-".into()], Some(text.as_bytes()))?;
            ensure!(out.code.is_some() && out.code != Some(0), "b3sum --check with {} failing entries exited with {:?}", n, out.code);
            let failed = out.stdout.split(|b| *b == b'\n').filter(|l| l.windows(8).any(|w| w == b": FAILED")).count();
            let ok = out.stdout.split(|b| *b == b'\n').filter(|l| l.ends_with(b": OK")).count();
            ensure!(failed == n && ok == 1, "b3sum --check with {} failing entries and one good entry printed {} FAILED and {} OK lines", n, failed, ok);
        }
    }
    Ok(())
}

fn file_strategy(tier: Tier) -> BoxedStrategy<FileSpec> {
    let max = tier.pick(200_000u32, 4_000_000u32);
    (0u8..NAMES.len() as u8, prop_oneof![4 => Just(0u32), 6 => 1u32..=3000, 6 => 16380u32..=16390, 4 => 0u32..=70_000, 2 => 0u32..=max, 1 => (1u32 << 20)..=(3u32 << 20)], gen::content(), prop_oneof![14 => Just(0u8), 1 => Just(1u8), 1 => Just(2u8)])
        .prop_map(|(name, len, content, bad)| FileSpec { name, len, content, bad })
        .boxed()
}

fn hash_strategy(tier: Tier) -> BoxedStrategy<HashCase> {
    let mode = prop_oneof![
        4 => Just(ModeArg::None),
        2 => gen::key32().prop_map(|k| ModeArg::Keyed(k.to_vec())),
        1 => prop::collection::vec(any::<u8>(), 0..=40).prop_map(ModeArg::Keyed),
        2 => gen::ctx_spec(300, false).prop_map(ModeArg::Derive),
    ];
    (
        prop::collection::vec(file_strategy(tier), 1..=4),
        mode,
        prop::option::weighted(0.5, prop_oneof![12 => 0u16..=300, 1 => 0u16..=65535]),
        prop::option::weighted(0.4, gen::position_lattice()),
        any::<bool>(),
        prop::option::weighted(0.4, crate::gen::select(vec![1u8, 2, 5])),
        prop_oneof![3 => Just(0u8), 1 => Just(1u8), 2 => Just(2u8), 1 => Just(3u8)],
    )
        .prop_map(|(files, mode, length, seek, no_mmap, num_threads, output)| HashCase { files, mode, length, seek, no_mmap, num_threads, output })
        .boxed()
}

// ---------------------------------------------------------------------------
// hashing standard input ("When no file is given, or when - is given, read standard input")
// ---------------------------------------------------------------------------
#[derive(Clone, Debug, Serialize, Deserialize)]
pub struct StdinCase {
    pub len: u32,
    pub content: Content,
    /// pass `-` explicitly (otherwise no file argument at all)
    pub dash: bool,
    pub derive: Option<CtxSpec>,
    /// --keyed with `-`: stdin is the key, so `-` cannot be an input and must be refused
    pub keyed: bool,
    pub length: Option<u16>,
    pub seek: Option<u64>,
    pub output: u8,
    pub no_mmap: bool,
    /// 0 = a pipe; 1 = a regular file at offset 0; 2 = a regular file whose offset was advanced by `skip` bytes
    #[serde(default)]
    pub stdin_kind: u8,
    #[serde(default)]
    pub skip: u32,
}

pub fn check_stdin(c: &StdinCase) -> Result<(), String> {
    let dir = TempDir::new()?;
    let data = c.content.expand(c.len as usize);
    let mut args: Vec<OsString> = Vec::new();
    if let Some(ctx) = &c.derive {
        args.push(format!("--derive-key={}", ctx.string()).into());
    }
    let seek = c.seek.unwrap_or(0);
    let length = core::cmp::min(c.length.map(|l| l as u64).unwrap_or(32), u64::MAX - seek);
    if c.length.is_some() || seek > u64::MAX - 32 {
        args.push("--length".into());
        args.push(length.to_string().into());
    }
    if c.seek.is_some() {
        args.push("--seek".into());
        args.push(seek.to_string().into());
    }
    if c.no_mmap {
        args.push("--no-mmap".into());
    }
    match c.output % 4 {
        1 => args.push("--no-names".into()),
        2 => args.push("--tag".into()),
        3 => args.push("--raw".into()),
        _ => {}
    }
    if c.keyed && c.derive.is_none() {
        args.push("--keyed".into());
        args.push("-".into());
        let out = run(&dir.0, &args, Some(&[7u8; 32]))?;
        ensure!(out.code.is_some() && out.code != Some(0), "b3sum --keyed - exited with {:?} (stdin is the key, so `-` cannot be hashed)", out.code);
        ensure!(out.stdout.is_empty(), "b3sum --keyed - printed {:?}", String::from_utf8_lossy(&out.stdout));
        return Ok(());
    }
    if c.dash {
        args.push("-".into());
    }
    let skip = match c.stdin_kind % 3 {
        2 => core::cmp::min(c.skip as usize, data.len()),
        _ => 0,
    };
    let out = if c.stdin_kind % 3 == 0 { run(&dir.0, &args, Some(&data))? } else { run_stdin_file(&dir.0, &args, &data, skip)? };
    let data = data[skip..].to_vec();
    let kf = match &c.derive {
        Some(ctx) => b3spec::KeyFlags::derive_key(ctx.string().as_bytes()),
        None => b3spec::KeyFlags::hash(),
    };
    let digest = b3spec::root(&kf, &data).xof(seek, length as usize);
    let want: Vec<u8> = match c.output % 4 {
        3 => digest.clone(),
        1 => format!("{}\n", hex(&digest)).into_bytes(),
        2 => format!("BLAKE3 (-) = {}\n", hex(&digest)).into_bytes(),
        _ => format!("{}  -\n", hex(&digest)).into_bytes(),
    };
    ensure!(out.code == Some(0), "b3sum {:?} < stdin exited with {:?}; stderr: {}", args, out.code, String::from_utf8_lossy(&out.stderr));
    ensure!(out.stdout == want, "b3sum {:?} on {} bytes of stdin printed {:?}, expected {:?}", args, data.len(), String::from_utf8_lossy(&out.stdout), String::from_utf8_lossy(&want));
    Ok(())
}

fn stdin_strategy(_tier: Tier) -> BoxedStrategy<StdinCase> {
    (
        prop_oneof![4 => Just(0u32), 6 => 1u32..=3000, 4 => 65_530u32..=65_540, 4 => 0u32..=200_000, 1 => (1u32 << 20)..=(3u32 << 20)],
        gen::content(),
        any::<bool>(),
        prop::option::weighted(0.3, gen::ctx_spec(100, false)),
        prop::bool::weighted(0.1),
        prop::option::weighted(0.4, 0u16..=300),
        prop::option::weighted(0.3, gen::position_lattice()),
        0u8..4,
        any::<bool>(),
        (prop_oneof![3 => Just(0u8), 1 => Just(1u8), 2 => Just(2u8)], prop_oneof![1u32..=100, 1u32..=70_000]),
    )
        .prop_map(|(len, content, dash, derive, keyed, length, seek, output, no_mmap, (stdin_kind, skip))| StdinCase { len, content, dash, derive, keyed, length, seek, output, no_mmap, stdin_kind, skip })
        .boxed()
}

// ---------------------------------------------------------------------------
// --check
// ---------------------------------------------------------------------------
#[derive(Clone, Debug, Serialize, Deserialize, PartialEq, Eq)]
pub enum Entry {
    Good { len: u32, tag: bool },
    /// the file is modified after its line was computed
    Stale { len: u32, tag: bool },
    Missing { tag: bool },
    Directory { tag: bool },
    /// index into a table of malformed lines
    Malformed(u8),
}

#[derive(Clone, Debug, Serialize, Deserialize)]
pub struct CheckCase {
    /// entries per checkfile
    pub checkfiles: Vec<Vec<Entry>>,
    pub crlf: bool,
    pub quiet: bool,
    pub seek: Option<u64>,
    pub no_mmap: bool,
    pub num_threads: Option<u8>,
    /// feed the (single) checkfile on stdin as `-`
    pub stdin: bool,
    pub content: Content,
    /// 0 = fine, 1 = append invalid UTF-8 bytes to the last checkfile, 2 = name a checkfile that does not exist
    pub broken_checkfile: u8,
}

const MALFORMED: &[&str] = &[
    "",
    "not a check line",
    "0123  short-hash",
    "0123456789abcdef0123456789abcdef0123456789abcdef0123456789abcdeg  bad-hex",
    "0123456789ABCDEF0123456789abcdef0123456789abcdef0123456789abcdef  upper-case",
    "0123456789abcdef0123456789abcdef0123456789abcdef0123456789abcdef  ",
    "0123456789abcdef0123456789abcdef0123456789abcdef0123456789abcdef one-space",
    "\\0123456789abcdef0123456789abcdef0123456789abcdef0123456789abcdef  bad\\escape",
    "\\0123456789abcdef0123456789abcdef0123456789abcdef0123456789abcdef  dangling\\",
    "BLAKE3 (file) = 0123",
    "BLAKE3 (file = 0123456789abcdef0123456789abcdef0123456789abcdef0123456789abcdef",
    "0123456789abcdef0123456789abcdef0123456789abcdef0123456789abcd\u{e9}  non-ascii-hash",
    "0123456789abcdef0123456789abcdef0123456789abcdef0123456789abcdef  nul\0name",
    "0123456789abcdef0123456789abcdef0123456789abcdef0123456789abcdef  fffd\u{FFFD}name",
];

pub fn check_check(c: &CheckCase) -> Result<(), String> {
    let dir = TempDir::new()?;
    // --check compares 32 bytes: keep them inside the stream
    let seek = core::cmp::min(c.seek.unwrap_or(0), u64::MAX - 32);
    let eol = if c.crlf { "\r\n" } else { "\n" };
    let mut expected_stdout: Vec<(String, bool)> = Vec::new(); // (name, ok)
    let mut bad = 0u64;
    let mut malformed = 0u64;
    let mut cf_paths: Vec<OsString> = Vec::new();
    let mut cf_texts: Vec<Vec<u8>> = Vec::new();
    let mut k = 0usize;
    for (ci, entries) in c.checkfiles.iter().enumerate() {
        let mut text = String::new();
        for e in entries {
            k += 1;
            let name = format!("f {} {}.dat", ci, k);
            let mut line_for = |len: u32, tag: bool, data_seed: u64| -> Vec<u8> {
                let data = Content { kind: c.content.kind, seed: c.content.seed ^ data_seed }.expand(len as usize);
                let digest = b3spec::root(&b3spec::KeyFlags::hash(), &data).xof(seek, core::cmp::min(32, u64::MAX - seek) as usize);
                if tag {
                    text.push_str(&format!("BLAKE3 ({}) = {}{}", name, hex(&digest), eol));
                } else {
                    text.push_str(&format!("{}  {}{}", hex(&digest), name, eol));
                }
                data
            };
            match e {
                Entry::Good { len, tag } => {
                    let data = line_for(*len, *tag, k as u64);
                    std::fs::write(dir.0.join(&name), &data).map_err(|e| format!("ENGINE: {}", e))?;
                    expected_stdout.push((name.clone(), true));
                }
                Entry::Stale { len, tag } => {
                    let mut data = line_for(*len, *tag, k as u64);
                    // the file changes after its checksum line was produced
                    if data.is_empty() {
                        data.push(1);
                    } else {
                        let i = data.len() / 2;
                        data[i] ^= 0x01;
                    }
                    std::fs::write(dir.0.join(&name), &data).map_err(|e| format!("ENGINE: {}", e))?;
                    expected_stdout.push((name.clone(), false));
                    bad += 1;
                }
                Entry::Missing { tag } => {
                    let _ = line_for(10, *tag, k as u64);
                    expected_stdout.push((name.clone(), false));
                    bad += 1;
                }
                Entry::Directory { tag } => {
                    let _ = line_for(10, *tag, k as u64);
                    std::fs::create_dir(dir.0.join(&name)).map_err(|e| format!("ENGINE: {}", e))?;
                    expected_stdout.push((name.clone(), false));
                    bad += 1;
                }
                Entry::Malformed(i) => {
                    text.push_str(MALFORMED[*i as usize % MALFORMED.len()]);
                    text.push_str(eol);
                    bad += 1;
                    malformed += 1;
                }
            }
        }
        let mut bytes = text.into_bytes();
        if c.broken_checkfile == 1 && ci + 1 == c.checkfiles.len() {
            bytes.extend_from_slice(b"\xff\xfe broken\n");
        }
        let p = format!("check{}.b3", ci);
        std::fs::write(dir.0.join(&p), &bytes).map_err(|e| format!("ENGINE: {}", e))?;
        cf_paths.push(p.into());
        cf_texts.push(bytes);
    }
    let mut args: Vec<OsString> = vec!["--check".into()];
    if c.quiet {
        args.push("--quiet".into());
    }
    if c.seek.is_some() {
        args.push("--seek".into());
        args.push(seek.to_string().into());
    }
    if c.no_mmap {
        args.push("--no-mmap".into());
    }
    if let Some(t) = c.num_threads {
        args.push("--num-threads".into());
        args.push(t.to_string().into());
    }
    let use_stdin = c.stdin && cf_paths.len() == 1;
    let stdin_data = if use_stdin { Some(cf_texts[0].clone()) } else { None };
    if use_stdin {
        args.push("-".into());
    } else {
        for p in &cf_paths {
            args.push(p.clone());
        }
    }
    if c.broken_checkfile == 2 {
        args.push("no-such-checkfile.b3".into());
    }
    let out = run(&dir.0, &args, stdin_data.as_deref())?;
    let so = String::from_utf8_lossy(&out.stdout).to_string();
    let se = String::from_utf8_lossy(&out.stderr).to_string();
    let ctx = || format!("b3sum {:?}\n checkfiles: {:?}\n stdout: {:?}\n stderr: {:?}", args, cf_texts.iter().map(|t| String::from_utf8_lossy(t).to_string()).collect::<Vec<_>>(), so, se);
    if c.broken_checkfile != 0 {
        // an unreadable or non-UTF-8 checkfile is only required to give a non-zero exit status
        ensure!(out.code != Some(0), "exit status 0 although a checkfile is unreadable or not UTF-8\n{}", ctx());
        return Ok(());
    }
    ensure!(out.code.is_some(), "b3sum --check was killed by a signal\n{}", ctx());
    ensure!((out.code == Some(0)) == (bad == 0), "exit status {:?} with {} bad entries (exit 0 iff every entry parses and matches)\n{}", out.code, bad, ctx());
    // stdout: one line per parseable entry, in checkfile order
    let lines: Vec<&str> = so.lines().collect();
    let want: Vec<&(String, bool)> = expected_stdout.iter().filter(|(_, ok)| !(*ok && c.quiet)).collect();
    ensure!(lines.len() == want.len(), "{} stdout lines for {} expected (entries after a bad one must still be checked)\n{}", lines.len(), want.len(), ctx());
    for (l, (name, ok)) in lines.iter().zip(want.iter()) {
        if *ok {
            ensure!(*l == format!("{}: OK", name), "expected `{}: OK`, got {:?}\n{}", name, l, ctx());
        } else {
            ensure!(l.starts_with(&format!("{}: FAILED", name)), "expected `{}: FAILED...`, got {:?}\n{}", name, l, ctx());
        }
    }
    // every malformed entry yields a diagnostic on stderr; bad entries are counted
    let diag = se.lines().filter(|l| !l.contains("WARNING")).count() as u64;
    ensure!(diag >= malformed, "{} malformed lines but only {} diagnostics on stderr\n{}", malformed, diag, ctx());
    if bad > 0 {
        let w = se.lines().find(|l| l.contains("WARNING")).ok_or_else(|| format!("{} bad entries but no WARNING summary on stderr\n{}", bad, ctx()))?;
        let n: Option<u64> = w.split(|ch: char| !ch.is_ascii_digit()).filter(|t| !t.is_empty()).filter_map(|t| t.parse().ok()).find(|_| true);
        // "b3sum: WARNING: N computed checksum(s) did NOT match" — the tool's name contains a digit
        let nums: Vec<u64> = w.split(|ch: char| !ch.is_ascii_digit()).filter(|t| !t.is_empty()).filter_map(|t| t.parse().ok()).collect();
        let _ = n;
        ensure!(nums.contains(&bad), "WARNING line {:?} does not count {} bad entries\n{}", w, bad, ctx());
    } else {
        ensure!(!se.contains("WARNING"), "WARNING printed although every entry is good\n{}", ctx());
    }
    Ok(())
}

pub fn classify_check(c: &CheckCase) -> Classes {
    let all: Vec<&Entry> = c.checkfiles.iter().flatten().collect();
    let good = all.iter().any(|e| matches!(e, Entry::Good { .. }));
    let stale = all.iter().any(|e| matches!(e, Entry::Stale { .. }));
    let missing = all.iter().any(|e| matches!(e, Entry::Missing { .. } | Entry::Directory { .. }));
    let malformed = all.iter().any(|e| matches!(e, Entry::Malformed(_)));
    let kinds = good as u32 + stale as u32 + missing as u32 + malformed as u32;
    // a good entry after a bad one: "the remaining entries are still checked"
    let mut seen_bad = false;
    let mut good_after_bad = false;
    for e in &all {
        match e {
            Entry::Good { .. } => good_after_bad |= seen_bad,
            _ => seen_bad = true,
        }
    }
    Classes::new(kinds >= 2)
        .tag(good, "has-good")
        .tag(stale, "has-stale")
        .tag(missing, "has-missing/directory")
        .tag(malformed, "has-malformed")
        .tag(good_after_bad, "good-entry-after-bad-entry")
        .tag(all.iter().all(|e| matches!(e, Entry::Good { .. })), "all-good(exit 0 expected)")
        .tag(c.crlf, "CRLF")
        .tag(c.quiet, "--quiet")
        .tag(c.seek.is_some(), "--seek")
        .tag(c.stdin && c.checkfiles.len() == 1, "checkfile-on-stdin")
        .tag(c.checkfiles.len() > 1, ">1-checkfiles")
        .tag(c.broken_checkfile == 1, "non-utf8-checkfile")
        .tag(c.broken_checkfile == 2, "missing-checkfile")
        .tag(all.iter().any(|e| matches!(e, Entry::Good { tag: true, .. } | Entry::Stale { tag: true, .. })), "tagged-lines")
}

fn entry_strategy() -> BoxedStrategy<Entry> {
    let len = prop_oneof![2 => Just(0u32), 3 => 1u32..=2000, 2 => 16380u32..=16390, 1 => 0u32..=100_000];
    prop_oneof![
        6 => (len.clone(), any::<bool>()).prop_map(|(len, tag)| Entry::Good { len, tag }),
        2 => (len, any::<bool>()).prop_map(|(len, tag)| Entry::Stale { len, tag }),
        1 => any::<bool>().prop_map(|tag| Entry::Missing { tag }),
        1 => any::<bool>().prop_map(|tag| Entry::Directory { tag }),
        2 => (0u8..MALFORMED.len() as u8).prop_map(Entry::Malformed),
    ]
    .boxed()
}

fn check_strategy(_tier: Tier) -> BoxedStrategy<CheckCase> {
    (
        prop::collection::vec(prop::collection::vec(entry_strategy(), 0..=6), 1..=3),
        any::<bool>(),
        any::<bool>(),
        prop::option::weighted(0.3, gen::position_lattice()),
        any::<bool>(),
        prop::option::weighted(0.3, crate::gen::select(vec![1u8, 2, 5])),
        any::<bool>(),
        gen::content(),
        prop_oneof![8 => Just(0u8), 1 => Just(1u8), 1 => Just(2u8)],
    )
        .prop_map(|(checkfiles, crlf, quiet, seek, no_mmap, num_threads, stdin, content, broken_checkfile)| CheckCase { checkfiles, crlf, quiet, seek, no_mmap, num_threads, stdin, content, broken_checkfile })
        .boxed()
}

pub fn subs() -> Vec<Box<dyn DynSub>> {
    vec![
        Box::new(PropSub::<HashCase> {
            name: "hashing-cli",
            rule: "proptest: the real b3sum binary on 1-4 arguments (one in sixteen missing or a directory: a diagnostic, non-zero exit, and nothing on stdout for it, the others hashed as usual; hostile names incl. spaces, two spaces, backslash, LF, CR, ') = ', 'BLAKE3 (', non-ASCII, invalid UTF-8, U+FFFD; sizes 0, small, 16 KiB+-, <=200 KB quick / 4 MB thorough) x {none, --keyed with 32-byte or wrong-length key on stdin, --derive-key} x --length 0..300 x --seek from the 64*K lattice x --no-mmap x --num-threads {1,2,5} x {default, --no-names, --tag, --raw}; oracle: stdout is byte-for-byte the documented line format around spec S[seek..seek+length] (hex lower-case or raw), exit 0; wrong-length keys are refused; where the flags allow, the output is fed back to the real `b3sum --check` (must accept every representable path, must fail otherwise); non-trivial = >=2 non-default flags",
            cases: (1_600, 40_000),
            strategy: hash_strategy,
            classify: classify_hash,
            check: check_hash,
            known: None,
            crumb: false,
        }),
        Box::new(crate::runner::EnumSub::<ManyCase> {
            name: "many-failures-cli",
            rule: "enumeration: 1, 2, 255, 256, 257, 512 and 65536 failures in one run x {--check entries for missing files, missing arguments, --check stale entries}, always with one good entry / file: the exit status is non-zero, exactly that many FAILED lines and one OK line (or exactly the good file's line) are printed",
            items: |tier| {
                let mut v = Vec::new();
                for kind in 0..3u8 {
                    for n in [1u32, 2, 255, 256, 257, 512] {
                        v.push(ManyCase { failures: n, kind });
                    }
                }
                v.push(ManyCase { failures: 65536, kind: 0 });
                if tier == Tier::Thorough {
                    v.push(ManyCase { failures: 65536, kind: 2 });
                }
                Box::new(v.into_iter())
            },
            classify: |c| Classes::new(c.failures >= 2).tag(c.failures % 256 == 0, "failures-multiple-of-256"),
            check: check_many,
            exhaustive: false,
            known: None,
            crumb: false,
        }),
        Box::new(crate::runner::EnumSub::<SpecialCase> {
            name: "special-files-cli",
            rule: "enumeration: the real b3sum on files of this system that cannot be memory-mapped or have no length (/sys/kernel/btf/vmlinux, /proc/kallsyms, /proc/version, /sys/kernel/notes; used when present with stable content) x {default, --no-mmap, --num-threads 1, --tag --length 100}; oracle: the documented line around the spec digest of the bytes read() delivers",
            items: |_| {
                let mut v = Vec::new();
                for p in ["/sys/kernel/btf/vmlinux", "/proc/kallsyms", "/proc/version", "/sys/kernel/notes"] {
                    for flags in 0..4u8 {
                        v.push(SpecialCase { path: p.to_string(), flags });
                    }
                }
                Box::new(v.into_iter())
            },
            classify: |c| Classes::new(true).tag(true, "special-path").tag(c.flags % 4 == 1, "--no-mmap"),
            check: check_special,
            exhaustive: false,
            known: None,
            crumb: false,
        }),
        Box::new(PropSub::<StdinCase> {
            name: "stdin-cli",
            rule: "proptest: data on standard input (a pipe, a regular file at offset 0, or a regular file whose read offset was advanced first: the input is what remains) with no file argument or an explicit `-`, x --derive-key / --length / --seek / --no-mmap / output form; oracle: the documented line with name `-` around spec S[seek..seek+length]; `--keyed -` (stdin is the key) must be refused with a non-zero status",
            cases: (600, 10_000),
            strategy: stdin_strategy,
            classify: |c| Classes::new(c.len > 65_536 || c.seek.is_some()).tag(c.dash, "explicit-dash").tag(!c.dash, "no-file-argument").tag(c.keyed && c.derive.is_none(), "--keyed-with-dash(refused)").tag(c.len == 0, "empty-stdin").tag(c.len > 65_536, "stdin>64KiB").tag(c.stdin_kind % 3 == 0, "stdin=pipe").tag(c.stdin_kind % 3 == 1, "stdin=file").tag(c.stdin_kind % 3 == 2, "stdin=file-at-offset"),
            check: check_stdin,
            known: None,
            crumb: false,
        }),
        Box::new(PropSub::<CheckCase> {
            name: "check-cli",
            rule: "proptest: 1-3 checkfiles (or stdin) of 0-6 entries each, every entry good / stale (file modified afterwards) / missing / directory / one of 14 malformed lines, LF or CRLF, plain or tagged, with --quiet, --seek (matching the one used to produce the lines), --no-mmap, --num-threads; plus non-UTF-8 and missing checkfiles; oracle: exit 0 iff every entry is good; stdout has `<name>: OK` for exactly the good entries (none with --quiet) and `<name>: FAILED...` for each stale/missing/directory entry in checkfile order (so entries after a bad one are still checked); >= one stderr diagnostic per malformed entry; the WARNING summary counts exactly the bad entries; broken checkfiles only need a non-zero exit; non-trivial = >=2 verdict kinds mixed",
            cases: (1_600, 40_000),
            strategy: check_strategy,
            classify: classify_check,
            check: check_check,
            known: None,
            crumb: false,
        }),
    ]
}
