//! Engine self-test: the spec model must reproduce the frozen copy of the
//! official test vectors. A failure here is an engine error, never a violation.

use b3spec::{root, KeyFlags};

pub const FROZEN: &str = include_str!(concat!(env!("CARGO_MANIFEST_DIR"), "/../../oracle/test_vectors.json"));

pub fn unhex(s: &str) -> Option<Vec<u8>> {
    if s.len() % 2 != 0 {
        return None;
    }
    let b = s.as_bytes();
    let v = |c: u8| -> Option<u8> {
        match c {
            b'0'..=b'9' => Some(c - b'0'),
            b'a'..=b'f' => Some(c - b'a' + 10),
            _ => None,
        }
    };
    (0..b.len() / 2).map(|i| Some(16 * v(b[2 * i])? + v(b[2 * i + 1])?)).collect()
}

pub fn run() -> Result<usize, String> {
    let doc: serde_json::Value = serde_json::from_str(FROZEN).map_err(|e| e.to_string())?;
    let key = doc["key"].as_str().ok_or("key")?.as_bytes();
    let ctx = doc["context_string"].as_str().ok_or("ctx")?;
    let mut k = [0u8; 32];
    if key.len() != 32 {
        return Err("frozen key length".into());
    }
    k.copy_from_slice(key);
    let mut n = 0;
    let cases = doc["cases"].as_array().ok_or("cases")?;
    if cases.len() != 35 {
        return Err(format!("frozen vectors: {} cases", cases.len()));
    }
    for c in cases {
        let len = c["input_len"].as_u64().ok_or("input_len")? as usize;
        let input: Vec<u8> = (0..len).map(|i| (i % 251) as u8).collect();
        for (field, kf) in [
            ("hash", KeyFlags::hash()),
            ("keyed_hash", KeyFlags::keyed(&k)),
            ("derive_key", KeyFlags::derive_key(ctx.as_bytes())),
        ] {
            let want = unhex(c[field].as_str().ok_or("field")?).ok_or("hex")?;
            if want.len() != 131 {
                return Err("frozen vector length".into());
            }
            let got = root(&kf, &input).xof(0, want.len());
            if got != want {
                return Err(format!("spec model != frozen vector: len={} field={}", len, field));
            }
            n += want.len();
        }
    }
    let e = b3spec::hash(b"");
    if runner_hex(&e) != "af1349b9f5f9a1a6a0404dea36dcc9499bcb25c9adc112b7cc9a93cae41f3262" {
        return Err("spec model: BLAKE3(\"\") mismatch".into());
    }
    Ok(n)
}

fn runner_hex(b: &[u8]) -> String {
    crate::runner::hex(b)
}
