//! A minimal NON-self-describing serde format (bincode's layout rules), used by C14 to round-trip
//! `Hash` through a format in which the shape announced by `Serialize` (tuple / sequence / byte
//! string) must be exactly the shape `Deserialize` asks for:
//!   fixed-size tuples and arrays: elements only; sequences and byte strings: u64 LE length, then
//!   the elements; integers little-endian; newtype structs transparent.
//! Anything a 32-byte value does not need (maps, enums, strings, floats, options) is refused.
use serde::de::{self, DeserializeSeed, SeqAccess, Visitor};
use serde::ser::{self, Serialize};
use std::fmt;

#[derive(Debug)]
pub struct Error(pub String);

impl fmt::Display for Error {
    fn fmt(&self, f: &mut fmt::Formatter<'_>) -> fmt::Result {
        f.write_str(&self.0)
    }
}
impl std::error::Error for Error {}
impl ser::Error for Error {
    fn custom<T: fmt::Display>(msg: T) -> Self {
        Error(msg.to_string())
    }
}
impl de::Error for Error {
    fn custom<T: fmt::Display>(msg: T) -> Self {
        Error(msg.to_string())
    }
}

fn unsupported<T>(what: &str) -> Result<T, Error> {
    Err(Error(format!("fixbin: {} is not supported", what)))
}

pub fn to_vec<T: Serialize>(v: &T) -> Result<Vec<u8>, Error> {
    let mut s = Ser { out: Vec::new() };
    v.serialize(&mut s)?;
    Ok(s.out)
}

/// Deserialize one value; returns it with the number of bytes consumed.
pub fn from_slice<'a, T: de::Deserialize<'a>>(b: &'a [u8]) -> Result<(T, usize), Error> {
    let mut d = De { inp: b, pos: 0 };
    let v = T::deserialize(&mut d)?;
    Ok((v, d.pos))
}

pub struct Ser {
    out: Vec<u8>,
}

pub struct Compound<'a> {
    s: &'a mut Ser,
}

impl<'a> ser::Serializer for &'a mut Ser {
    type Ok = ();
    type Error = Error;
    type SerializeSeq = Compound<'a>;
    type SerializeTuple = Compound<'a>;
    type SerializeTupleStruct = Compound<'a>;
    type SerializeTupleVariant = ser::Impossible<(), Error>;
    type SerializeMap = ser::Impossible<(), Error>;
    type SerializeStruct = Compound<'a>;
    type SerializeStructVariant = ser::Impossible<(), Error>;

    fn serialize_bool(self, v: bool) -> Result<(), Error> {
        self.out.push(v as u8);
        Ok(())
    }
    fn serialize_i8(self, v: i8) -> Result<(), Error> {
        self.out.push(v as u8);
        Ok(())
    }
    fn serialize_i16(self, v: i16) -> Result<(), Error> {
        self.out.extend_from_slice(&v.to_le_bytes());
        Ok(())
    }
    fn serialize_i32(self, v: i32) -> Result<(), Error> {
        self.out.extend_from_slice(&v.to_le_bytes());
        Ok(())
    }
    fn serialize_i64(self, v: i64) -> Result<(), Error> {
        self.out.extend_from_slice(&v.to_le_bytes());
        Ok(())
    }
    fn serialize_u8(self, v: u8) -> Result<(), Error> {
        self.out.push(v);
        Ok(())
    }
    fn serialize_u16(self, v: u16) -> Result<(), Error> {
        self.out.extend_from_slice(&v.to_le_bytes());
        Ok(())
    }
    fn serialize_u32(self, v: u32) -> Result<(), Error> {
        self.out.extend_from_slice(&v.to_le_bytes());
        Ok(())
    }
    fn serialize_u64(self, v: u64) -> Result<(), Error> {
        self.out.extend_from_slice(&v.to_le_bytes());
        Ok(())
    }
    fn serialize_f32(self, _: f32) -> Result<(), Error> {
        unsupported("f32")
    }
    fn serialize_f64(self, _: f64) -> Result<(), Error> {
        unsupported("f64")
    }
    fn serialize_char(self, _: char) -> Result<(), Error> {
        unsupported("char")
    }
    fn serialize_str(self, _: &str) -> Result<(), Error> {
        unsupported("str")
    }
    fn serialize_bytes(self, v: &[u8]) -> Result<(), Error> {
        self.out.extend_from_slice(&(v.len() as u64).to_le_bytes());
        self.out.extend_from_slice(v);
        Ok(())
    }
    fn serialize_none(self) -> Result<(), Error> {
        unsupported("option")
    }
    fn serialize_some<T: ?Sized + Serialize>(self, _: &T) -> Result<(), Error> {
        unsupported("option")
    }
    fn serialize_unit(self) -> Result<(), Error> {
        Ok(())
    }
    fn serialize_unit_struct(self, _: &'static str) -> Result<(), Error> {
        Ok(())
    }
    fn serialize_unit_variant(self, _: &'static str, _: u32, _: &'static str) -> Result<(), Error> {
        unsupported("enum")
    }
    fn serialize_newtype_struct<T: ?Sized + Serialize>(self, _: &'static str, value: &T) -> Result<(), Error> {
        value.serialize(self)
    }
    fn serialize_newtype_variant<T: ?Sized + Serialize>(self, _: &'static str, _: u32, _: &'static str, _: &T) -> Result<(), Error> {
        unsupported("enum")
    }
    fn serialize_seq(self, len: Option<usize>) -> Result<Compound<'a>, Error> {
        let n = len.ok_or_else(|| Error("fixbin: sequences need a known length".into()))?;
        self.out.extend_from_slice(&(n as u64).to_le_bytes());
        Ok(Compound { s: self })
    }
    fn serialize_tuple(self, _len: usize) -> Result<Compound<'a>, Error> {
        Ok(Compound { s: self })
    }
    fn serialize_tuple_struct(self, _: &'static str, _len: usize) -> Result<Compound<'a>, Error> {
        Ok(Compound { s: self })
    }
    fn serialize_tuple_variant(self, _: &'static str, _: u32, _: &'static str, _: usize) -> Result<Self::SerializeTupleVariant, Error> {
        unsupported("enum")
    }
    fn serialize_map(self, _: Option<usize>) -> Result<Self::SerializeMap, Error> {
        unsupported("map")
    }
    fn serialize_struct(self, _: &'static str, _: usize) -> Result<Compound<'a>, Error> {
        Ok(Compound { s: self })
    }
    fn serialize_struct_variant(self, _: &'static str, _: u32, _: &'static str, _: usize) -> Result<Self::SerializeStructVariant, Error> {
        unsupported("enum")
    }
    fn is_human_readable(&self) -> bool {
        false
    }
}

impl<'a> ser::SerializeSeq for Compound<'a> {
    type Ok = ();
    type Error = Error;
    fn serialize_element<T: ?Sized + Serialize>(&mut self, v: &T) -> Result<(), Error> {
        v.serialize(&mut *self.s)
    }
    fn end(self) -> Result<(), Error> {
        Ok(())
    }
}
impl<'a> ser::SerializeTuple for Compound<'a> {
    type Ok = ();
    type Error = Error;
    fn serialize_element<T: ?Sized + Serialize>(&mut self, v: &T) -> Result<(), Error> {
        v.serialize(&mut *self.s)
    }
    fn end(self) -> Result<(), Error> {
        Ok(())
    }
}
impl<'a> ser::SerializeTupleStruct for Compound<'a> {
    type Ok = ();
    type Error = Error;
    fn serialize_field<T: ?Sized + Serialize>(&mut self, v: &T) -> Result<(), Error> {
        v.serialize(&mut *self.s)
    }
    fn end(self) -> Result<(), Error> {
        Ok(())
    }
}
impl<'a> ser::SerializeStruct for Compound<'a> {
    type Ok = ();
    type Error = Error;
    fn serialize_field<T: ?Sized + Serialize>(&mut self, _: &'static str, v: &T) -> Result<(), Error> {
        v.serialize(&mut *self.s)
    }
    fn end(self) -> Result<(), Error> {
        Ok(())
    }
}

pub struct De<'de> {
    inp: &'de [u8],
    pos: usize,
}

impl<'de> De<'de> {
    fn take(&mut self, n: usize) -> Result<&'de [u8], Error> {
        if self.inp.len() - self.pos < n {
            return Err(Error(format!("fixbin: input ends after {} bytes, {} more needed", self.inp.len(), n - (self.inp.len() - self.pos))));
        }
        let s = &self.inp[self.pos..self.pos + n];
        self.pos += n;
        Ok(s)
    }
    fn len_prefix(&mut self) -> Result<usize, Error> {
        let b = self.take(8)?;
        let n = u64::from_le_bytes(b.try_into().unwrap());
        if n > (self.inp.len() - self.pos) as u64 {
            return Err(Error(format!("fixbin: length prefix {} exceeds the remaining input", n)));
        }
        Ok(n as usize)
    }
}

struct Elems<'a, 'de> {
    d: &'a mut De<'de>,
    left: usize,
}

impl<'a, 'de> SeqAccess<'de> for Elems<'a, 'de> {
    type Error = Error;
    fn next_element_seed<T: DeserializeSeed<'de>>(&mut self, seed: T) -> Result<Option<T::Value>, Error> {
        if self.left == 0 {
            return Ok(None);
        }
        self.left -= 1;
        seed.deserialize(&mut *self.d).map(Some)
    }
    fn size_hint(&self) -> Option<usize> {
        Some(self.left)
    }
}

macro_rules! de_int {
    ($name:ident, $visit:ident, $t:ty, $n:expr) => {
        fn $name<V: Visitor<'de>>(self, v: V) -> Result<V::Value, Error> {
            let b = self.take($n)?;
            v.$visit(<$t>::from_le_bytes(b.try_into().unwrap()))
        }
    };
}

impl<'a, 'de> de::Deserializer<'de> for &'a mut De<'de> {
    type Error = Error;
    fn deserialize_any<V: Visitor<'de>>(self, _: V) -> Result<V::Value, Error> {
        unsupported("deserialize_any (the format is not self-describing)")
    }
    fn deserialize_bool<V: Visitor<'de>>(self, v: V) -> Result<V::Value, Error> {
        let b = self.take(1)?[0];
        v.visit_bool(b != 0)
    }
    de_int!(deserialize_i8, visit_i8, i8, 1);
    de_int!(deserialize_i16, visit_i16, i16, 2);
    de_int!(deserialize_i32, visit_i32, i32, 4);
    de_int!(deserialize_i64, visit_i64, i64, 8);
    de_int!(deserialize_u8, visit_u8, u8, 1);
    de_int!(deserialize_u16, visit_u16, u16, 2);
    de_int!(deserialize_u32, visit_u32, u32, 4);
    de_int!(deserialize_u64, visit_u64, u64, 8);
    fn deserialize_f32<V: Visitor<'de>>(self, _: V) -> Result<V::Value, Error> {
        unsupported("f32")
    }
    fn deserialize_f64<V: Visitor<'de>>(self, _: V) -> Result<V::Value, Error> {
        unsupported("f64")
    }
    fn deserialize_char<V: Visitor<'de>>(self, _: V) -> Result<V::Value, Error> {
        unsupported("char")
    }
    fn deserialize_str<V: Visitor<'de>>(self, _: V) -> Result<V::Value, Error> {
        unsupported("str")
    }
    fn deserialize_string<V: Visitor<'de>>(self, _: V) -> Result<V::Value, Error> {
        unsupported("string")
    }
    fn deserialize_bytes<V: Visitor<'de>>(self, v: V) -> Result<V::Value, Error> {
        let n = self.len_prefix()?;
        v.visit_borrowed_bytes(self.take(n)?)
    }
    fn deserialize_byte_buf<V: Visitor<'de>>(self, v: V) -> Result<V::Value, Error> {
        let n = self.len_prefix()?;
        v.visit_byte_buf(self.take(n)?.to_vec())
    }
    fn deserialize_option<V: Visitor<'de>>(self, _: V) -> Result<V::Value, Error> {
        unsupported("option")
    }
    fn deserialize_unit<V: Visitor<'de>>(self, v: V) -> Result<V::Value, Error> {
        v.visit_unit()
    }
    fn deserialize_unit_struct<V: Visitor<'de>>(self, _: &'static str, v: V) -> Result<V::Value, Error> {
        v.visit_unit()
    }
    fn deserialize_newtype_struct<V: Visitor<'de>>(self, _: &'static str, v: V) -> Result<V::Value, Error> {
        v.visit_newtype_struct(self)
    }
    fn deserialize_seq<V: Visitor<'de>>(self, v: V) -> Result<V::Value, Error> {
        let n = self.len_prefix()?;
        v.visit_seq(Elems { d: self, left: n })
    }
    fn deserialize_tuple<V: Visitor<'de>>(self, len: usize, v: V) -> Result<V::Value, Error> {
        v.visit_seq(Elems { d: self, left: len })
    }
    fn deserialize_tuple_struct<V: Visitor<'de>>(self, _: &'static str, len: usize, v: V) -> Result<V::Value, Error> {
        v.visit_seq(Elems { d: self, left: len })
    }
    fn deserialize_map<V: Visitor<'de>>(self, _: V) -> Result<V::Value, Error> {
        unsupported("map")
    }
    fn deserialize_struct<V: Visitor<'de>>(self, _: &'static str, fields: &'static [&'static str], v: V) -> Result<V::Value, Error> {
        v.visit_seq(Elems { d: self, left: fields.len() })
    }
    fn deserialize_enum<V: Visitor<'de>>(self, _: &'static str, _: &'static [&'static str], _: V) -> Result<V::Value, Error> {
        unsupported("enum")
    }
    fn deserialize_identifier<V: Visitor<'de>>(self, _: V) -> Result<V::Value, Error> {
        unsupported("identifier")
    }
    fn deserialize_ignored_any<V: Visitor<'de>>(self, _: V) -> Result<V::Value, Error> {
        unsupported("ignored_any")
    }
    fn is_human_readable(&self) -> bool {
        false
    }
}
