//! Uniform access to every compression kernel this build can execute: the
//! crate's `Platform` methods at each SIMD level and (see cshim.rs) the raw C /
//! assembly kernels compiled from /repo/c.

use crate::levels::{self, Level, ALL_LEVELS};
use blake3::platform::Platform;
use std::sync::OnceLock;

pub trait Kernel: Sync + Send {
    fn name(&self) -> &'static str;
    /// returns false when this kernel set has no single-block compression (e.g. AVX2 files)
    fn compress_in_place(&self, cv: &mut [u32; 8], block: &[u8; 64], block_len: u8, counter: u64, flags: u8) -> bool;
    fn compress_xof(&self, cv: &[u32; 8], block: &[u8; 64], block_len: u8, counter: u64, flags: u8) -> Option<[u8; 64]>;
    /// compress_xof writing through a caller-supplied `out` pointer of any alignment (raw C/assembly kernels only;
    /// the Rust Platform API returns the block by value); false when not available
    fn compress_xof_to(&self, _cv: &[u32; 8], _block: &[u8; 64], _block_len: u8, _counter: u64, _flags: u8, _out: *mut u8) -> bool {
        false
    }
    /// `inputs[j]` points at `blocks*64` readable bytes; writes 32 bytes per input to the start of `out`.
    fn hash_many(&self, inputs: &[*const u8], blocks: usize, key: &[u32; 8], counter: u64, inc: bool, flags: u8, fs: u8, fe: u8, out: &mut [u8], need: usize);
    /// returns false when this kernel set has no xof_many
    fn xof_many(&self, cv: &[u32; 8], block: &[u8; 64], block_len: u8, counter: u64, flags: u8, out: &mut [u8], nblocks: usize) -> bool;
}

pub struct PlatKernel {
    pub name: &'static str,
    pub p: Platform,
}

impl Kernel for PlatKernel {
    fn name(&self) -> &'static str {
        self.name
    }
    fn compress_in_place(&self, cv: &mut [u32; 8], block: &[u8; 64], block_len: u8, counter: u64, flags: u8) -> bool {
        self.p.compress_in_place(cv, block, block_len, counter, flags);
        true
    }
    fn compress_xof(&self, cv: &[u32; 8], block: &[u8; 64], block_len: u8, counter: u64, flags: u8) -> Option<[u8; 64]> {
        Some(self.p.compress_xof(cv, block, block_len, counter, flags))
    }
    fn hash_many(&self, inputs: &[*const u8], blocks: usize, key: &[u32; 8], counter: u64, inc: bool, flags: u8, fs: u8, fe: u8, out: &mut [u8], _need: usize) {
        let inc = if inc { blake3::IncrementCounter::Yes } else { blake3::IncrementCounter::No };
        if blocks == 16 {
            let refs: Vec<&[u8; 1024]> = inputs.iter().map(|&p| unsafe { &*(p as *const [u8; 1024]) }).collect();
            self.p.hash_many(&refs, key, counter, inc, flags, fs, fe, out);
        } else {
            assert_eq!(blocks, 1);
            let refs: Vec<&[u8; 64]> = inputs.iter().map(|&p| unsafe { &*(p as *const [u8; 64]) }).collect();
            self.p.hash_many(&refs, key, counter, inc, flags, fs, fe, out);
        }
    }
    fn xof_many(&self, cv: &[u32; 8], block: &[u8; 64], block_len: u8, counter: u64, flags: u8, out: &mut [u8], nblocks: usize) -> bool {
        self.p.xof_many(cv, block, block_len, counter, flags, &mut out[..nblocks * 64]);
        true
    }
}

pub fn platform_kernels() -> Vec<Box<dyn Kernel>> {
    let mut v: Vec<Box<dyn Kernel>> = Vec::new();
    for l in ALL_LEVELS {
        if let Some(p) = levels::platform_of(l) {
            let name: &'static str = Box::leak(format!("rust:{}:Platform::{}", levels::BUILD, l.debug_name()).into_boxed_str());
            v.push(Box::new(PlatKernel { name, p }));
        }
    }
    v
}

pub fn all_kernels() -> &'static [Box<dyn Kernel>] {
    static K: OnceLock<Vec<Box<dyn Kernel>>> = OnceLock::new();
    K.get_or_init(|| {
        let mut v = platform_kernels();
        v.extend(crate::cshim::raw_kernels());
        v
    })
}

#[allow(dead_code)]
pub fn level_of_name(name: &str) -> Option<Level> {
    ALL_LEVELS.iter().copied().find(|l| name.ends_with(l.debug_name()))
}
