//! Scripted fork-join used for the C library's parallel-join seam (and mirrored
//! by the Rust-side ScriptedJoin hook): the harness decides, per split-tree
//! path, whether the left half runs first, the right half runs first, or both
//! run concurrently on two threads.
#![allow(dead_code)]

use std::cell::RefCell;

#[derive(Clone, Copy, Debug, PartialEq, Eq)]
pub enum Order {
    LeftFirst,
    RightFirst,
    Concurrent,
}

/// Schedule script: decision = f(seed, path), a pure function, so that the
/// schedule is reproducible even when halves really run in parallel.
#[derive(Clone, Copy, Debug)]
pub struct Script {
    pub seed: u64,
    /// 0 = always left-first, 1 = always right-first, 2 = always concurrent, 3 = mixed by hash of the path,
    /// 4 = (C seam only) rayon's work-stealing scheduler in a pool of 2 + seed % 7 threads
    pub mode: u8,
}

impl Script {
    pub fn decide(&self, path: u64, depth: u32) -> Order {
        match self.mode {
            0 => Order::LeftFirst,
            1 => Order::RightFirst,
            2 => Order::Concurrent,
            _ => {
                let mut x = self.seed ^ path.wrapping_mul(0x9E37_79B9_7F4A_7C15) ^ ((depth as u64) << 56);
                let r = crate::gen::splitmix(&mut x);
                match r % 3 {
                    0 => Order::LeftFirst,
                    1 => Order::RightFirst,
                    _ => Order::Concurrent,
                }
            }
        }
    }
}

#[derive(Clone, Copy, Default, Debug)]
pub struct Stats {
    pub splits: u64,
    pub left_first: u64,
    pub right_first: u64,
    pub concurrent: u64,
}

thread_local! {
    /// (script, path bits, depth) of the split currently executing on this thread
    static CUR: RefCell<Option<(Script, u64, u32)>> = RefCell::new(None);
}

static STATS: std::sync::Mutex<Stats> = std::sync::Mutex::new(Stats { splits: 0, left_first: 0, right_first: 0, concurrent: 0 });

pub fn install(script: Option<Script>) {
    CUR.with(|c| *c.borrow_mut() = script.map(|s| (s, 1u64, 0u32)));
    *STATS.lock().unwrap() = Stats::default();
}

pub fn take_stats() -> Stats {
    let s = *STATS.lock().unwrap();
    *STATS.lock().unwrap() = Stats::default();
    s
}

struct SendPtr<T>(T);
unsafe impl<T> Send for SendPtr<T> {}

/// When set, every join is handed to rayon's work-stealing scheduler (`rayon_core::join`) of the pool the caller is
/// running in: halves are stolen by other workers, and a worker waiting for a stolen half executes OTHER pending
/// halves on its own stack in the meantime (re-entrant schedules, as with oneTBB).
pub static WORK_STEALING: std::sync::atomic::AtomicBool = std::sync::atomic::AtomicBool::new(false);

/// Run both halves in the order the installed script dictates for the current path.
pub fn join<A: FnOnce(), B: FnOnce()>(use_tbb: bool, left: A, right: B) {
    if !use_tbb {
        // blake3_tbb.cpp: without use_tbb the two halves run serially, left first
        left();
        right();
        return;
    }
    #[cfg(feature = "full")]
    if WORK_STEALING.load(std::sync::atomic::Ordering::Relaxed) {
        let (l, r) = (SendPtr(left), SendPtr(right));
        rayon_core::join(
            move || {
                let l = l;
                (l.0)()
            },
            move || {
                let r = r;
                (r.0)()
            },
        );
        return;
    }
    let cur = CUR.with(|c| *c.borrow());
    let (script, path, depth) = match cur {
        Some(x) => x,
        None => {
            left();
            right();
            return;
        }
    };
    let order = script.decide(path, depth);
    {
        let mut st = STATS.lock().unwrap();
        st.splits += 1;
        match order {
            Order::LeftFirst => st.left_first += 1,
            Order::RightFirst => st.right_first += 1,
            Order::Concurrent => st.concurrent += 1,
        }
    }
    let lpath = path << 1;
    let rpath = (path << 1) | 1;
    let set = |p: u64| CUR.with(|c| *c.borrow_mut() = Some((script, p, depth + 1)));
    match order {
        Order::LeftFirst => {
            set(lpath);
            left();
            set(rpath);
            right();
        }
        Order::RightFirst => {
            set(rpath);
            right();
            set(lpath);
            left();
        }
        Order::Concurrent => {
            let r = SendPtr(right);
            std::thread::scope(|s| {
                s.spawn(move || {
                    let r = r;
                    CUR.with(|c| *c.borrow_mut() = Some((script, rpath, depth + 1)));
                    (r.0)();
                });
                set(lpath);
                left();
            });
        }
    }
    CUR.with(|c| *c.borrow_mut() = Some((script, path, depth)));
}
