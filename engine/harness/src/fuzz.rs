//! Coverage-guided fuzzing entry points. A fuzz input is decoded by hand
//! (arbitrary::Unstructured) into one structured case of a sub-check; the
//! sub-check's own oracle (spec model, twin, certificate, ...) decides.
//!
//! (proptest's byte-driven PassThrough RNG cannot be used for this: every
//! `prop_oneof!` forks the RNG for its lazily generated alternatives, which
//! halves the remaining bytes each time, and rand 0.9's uniform sampler then
//! spins forever on the all-zero stream of an exhausted PassThrough RNG.)

use crate::gen::{Content, CtxSpec, ModeC};
use crate::hist::Size;
use crate::props;
use crate::runner::{Classes, Tier};
use arbitrary::Unstructured;
use serde::Serialize;

type R<T> = arbitrary::Result<T>;

fn size(u: &mut Unstructured) -> R<Size> {
    let d: i8 = *u.choose(&[0i8, 0, 1, -1, 63, 64, 65, -64])?;
    Ok(match u.int_in_range(0u8..=9)? {
        0 => Size::Zero,
        1 => Size::Abs(u.int_in_range(0u32..=200)?),
        2 => Size::Abs(u.int_in_range(0u32..=5000)?),
        3 => Size::Abs(u.int_in_range(0u32..=70_000)?),
        4 => Size::ToBlockEnd(d),
        5 => Size::ToChunkEnd(d),
        6 => Size::Pow2Chunks(u.int_in_range(0u8..=7)?, d),
        7 => Size::ToPow2Boundary(u.int_in_range(0u8..=7)?, d),
        8 => Size::SimdMultiple(u.int_in_range(0u8..=4)?, u.int_in_range(0u8..=3)?, d),
        _ => Size::Abs(u.int_in_range(0u32..=1100)?),
    })
}

fn content(u: &mut Unstructured) -> R<Content> {
    Ok(Content { kind: *u.choose(&[3u8, 3, 0, 1, 2, 4])?, seed: u.arbitrary::<u16>()? as u64 })
}

fn ctx(u: &mut Unstructured, raw: bool) -> R<CtxSpec> {
    let kind = if raw { u.int_in_range(0u8..=2)? } else { u.int_in_range(0u8..=1)? };
    let len = *u.choose(&[0u16, 1, 5, 40, 80, 1024, 1100, 3000])?;
    Ok(CtxSpec { kind, len, seed: u.arbitrary::<u16>()? as u64 })
}

fn mode(u: &mut Unstructured, with_ck: bool) -> R<ModeC> {
    Ok(match u.int_in_range(0u8..=if with_ck { 3 } else { 2 })? {
        0 => ModeC::Hash,
        1 => ModeC::Keyed(u.arbitrary()?),
        2 => ModeC::Derive(ctx(u, false)?),
        _ => ModeC::DeriveCk(u.arbitrary()?),
    })
}

fn position(u: &mut Unstructured) -> R<u64> {
    Ok(match u.int_in_range(0u8..=5)? {
        0 => u.int_in_range(0u64..=300)?,
        1 => 64 * u.int_in_range(0u64..=40)? + u.int_in_range(0u64..=63)?,
        2 => 64 * ((1u64 << 32) - 17 + u.int_in_range(0u64..=34)?) + u.int_in_range(0u64..=63)?,
        3 => u64::MAX - u.int_in_range(0u64..=70_000)?,
        4 => 64 * ((1u64 << 33) - 17 + u.int_in_range(0u64..=34)?) + u.int_in_range(0u64..=63)?,
        _ => u.arbitrary()?,
    })
}

fn counter(u: &mut Unstructured) -> R<u64> {
    Ok(match u.int_in_range(0u8..=6)? {
        0 => u.int_in_range(0u64..=2)?,
        1 => (1u64 << 32) - 45 + u.int_in_range(0u64..=90)?,
        2 => ((u.int_in_range(1u64..=4)?) << 32) - u.int_in_range(0u64..=45)?,
        3 => u64::MAX - u.int_in_range(0u64..=45)?,
        4 => (1u64 << 54) - u.int_in_range(0u64..=40)?,
        5 => u.arbitrary::<u32>()? as u64,
        _ => u.arbitrary()?,
    })
}

fn chunk_index(u: &mut Unstructured) -> R<u64> {
    Ok(match u.int_in_range(0u8..=5)? {
        0 => 0,
        1 => u.int_in_range(1u64..=40)?,
        2 => 1u64 << u.int_in_range(0u32..=53)?,
        3 => core::cmp::min((2 * u.int_in_range(0u64..=500)? + 1) << u.int_in_range(0u32..=40)?, (1u64 << 54) - 1),
        4 => (1u64 << 32) - 17 + u.int_in_range(0u64..=34)?,
        _ => (1u64 << 54) - u.int_in_range(1u64..=40)?,
    })
}

fn js<T: Serialize>(v: T) -> Option<serde_json::Value> {
    serde_json::to_value(v).ok()
}

/// Decode a fuzz input into the JSON form of one case of (prop, sub).
pub fn decode(prop: &str, sub: &str, data: &[u8]) -> Option<serde_json::Value> {
    let mut u = Unstructured::new(data);
    let u = &mut u;
    match (prop, sub) {
        ("C02", "histories") => {
            use props::c02::{History, Op};
            let mode = mode(u, true).ok()?;
            let content = content(u).ok()?;
            let mut ops = Vec::new();
            while !u.is_empty() && ops.len() < 40 {
                let op = match u.int_in_range(0u8..=15).ok()? {
                    0..=4 => Op::Update(size(u).ok()?),
                    5 => Op::Write(size(u).ok()?),
                    6 => Op::WriteAll(size(u).ok()?),
                    7 => Op::IoCopy(size(u).ok()?),
                    8 => Op::UpdateReader(size(u).ok()?, u.arbitrary().ok()?),
                    9 => Op::UpdateRayon(size(u).ok()?),
                    10 => Op::Finalize,
                    11 => Op::FinalizeXof(u.int_in_range(0u16..=300).ok()?),
                    12 => Op::Count,
                    13 => Op::Clone(u.int_in_range(0u8..=5).ok()?),
                    14 => Op::Select(u.int_in_range(0u8..=2).ok()?),
                    _ => Op::UpdateMmap(size(u).ok()?),
                };
                ops.push(op);
            }
            js(History { mode, content, budget: 128 * 1024, ops })
        }
        ("C03", "streams") => {
            use props::c03::{Case, Op, RootSrc};
            let root = if u.ratio(1u8, 6u8).ok()? {
                RootSrc::Merge { mode: mode(u, true).ok()?, left: u.arbitrary().ok()?, right: u.arbitrary().ok()? }
            } else {
                let len = *u.choose(&[0usize, 1, 31, 32, 63, 64, 65, 127, 128, 1023, 1024, 1025, 2048, 2049, 3072, 4096, 5000, 20_000]).ok()?;
                RootSrc::Input { mode: mode(u, true).ok()?, len, content: content(u).ok()? }
            };
            let mut ops = Vec::new();
            while !u.is_empty() && ops.len() < 30 {
                let n = match u.int_in_range(0u8..=3).ok()? {
                    0 => 0,
                    1 => u.int_in_range(1u32..=130).ok()?,
                    2 => *u.choose(&[63u32, 64, 65, 127, 128, 129, 1023, 1024, 1025, 1088, 2048]).ok()?,
                    _ => u.int_in_range(0u32..=3000).ok()?,
                };
                let op = match u.int_in_range(0u8..=12).ok()? {
                    0..=3 => Op::Fill(n),
                    4 => Op::Read(n),
                    5 => Op::ReadExact(n),
                    6 | 7 => Op::SetPosition(position(u).ok()?),
                    8 => Op::SeekStart(position(u).ok()?),
                    9 => Op::SeekCurrent(match u.int_in_range(0u8..=2).ok()? {
                        0 => u.int_in_range(-200i64..=200).ok()?,
                        1 => *u.choose(&[i64::MIN, i64::MIN + 1, -(1i64 << 38), 1i64 << 38, i64::MAX]).ok()?,
                        _ => u.arbitrary().ok()?,
                    }),
                    10 => Op::SeekEnd(u.arbitrary().ok()?),
                    11 => Op::Clone,
                    _ => Op::Swap,
                };
                ops.push(op);
            }
            js(Case { root, ops })
        }
        ("C10", "reset-histories") => {
            use props::c10::{Case, Op};
            let mode = mode(u, true).ok()?;
            let content = content(u).ok()?;
            let mut ops = Vec::new();
            while !u.is_empty() && ops.len() < 30 {
                let op = match u.int_in_range(0u8..=13).ok()? {
                    0 | 1 => Op::SetOffset(chunk_index(u).ok()?),
                    2..=6 => Op::Update(size(u).ok()?),
                    7 => Op::Finalize,
                    8 => Op::FinalizeXof(u.int_in_range(0u16..=200).ok()?),
                    9 => Op::FinalizeNonRoot,
                    10 => Op::Reset,
                    11 => {
                        if u.arbitrary::<bool>().ok()? {
                            Op::Reset
                        } else {
                            Op::TraitFinalizeReset(u.int_in_range(0u8..=31).ok()?)
                        }
                    }
                    12 => Op::Clone,
                    _ => Op::Swap,
                };
                ops.push(op);
            }
            js(Case { mode, content, budget: 96 * 1024, ops })
        }
        ("C09", "decompositions") => {
            use props::c09::TreeCase;
            let mode = mode(u, true).ok()?;
            let k = u.int_in_range(1i64..=130).ok()?;
            let delta = *u.choose(&[-1025i64, -1024, -65, -1, 0, 1, 64, 1023]).ok()?;
            let len = core::cmp::max(1025, k * 1024 + delta) as usize;
            let content = content(u).ok()?;
            let nsplits = u.int_in_range(0usize..=30).ok()?;
            let mut splits = Vec::new();
            for _ in 0..nsplits {
                splits.push(u.arbitrary::<bool>().ok()?);
            }
            let mut sizes = Vec::new();
            for _ in 0..u.int_in_range(0usize..=5).ok()? {
                sizes.push(size(u).ok()?);
            }
            js(TreeCase { mode, len, content, splits, sizes })
        }
        ("C05", "kernels") => {
            use props::c05::KCase;
            let cvs = |u: &mut Unstructured| -> R<[u32; 8]> {
                Ok(match u.int_in_range(0u8..=3)? {
                    0 => [0; 8],
                    1 => [u32::MAX; 8],
                    2 => b3spec::IV,
                    _ => u.arbitrary()?,
                })
            };
            let k = match u.int_in_range(0u8..=2).ok()? {
                0 => KCase::Compress { cv: cvs(u).ok()?, block_kind: u.int_in_range(0u8..=3).ok()?, block_seed: u.arbitrary::<u16>().ok()? as u64, block_len: u.int_in_range(0u8..=64).ok()?, counter: counter(u).ok()?, flags: u.arbitrary().ok()?, align: u.int_in_range(0u8..=63).ok()? },
                1 => KCase::HashMany {
                    n: u.int_in_range(0u8..=35).ok()?,
                    parents: u.arbitrary().ok()?,
                    key: cvs(u).ok()?,
                    counter: counter(u).ok()?,
                    inc: u.ratio(7u8, 10u8).ok()?,
                    flags: u.arbitrary().ok()?,
                    fs: u.arbitrary().ok()?,
                    fe: u.arbitrary().ok()?,
                    seed: u.arbitrary::<u16>().ok()? as u64,
                    align_seed: u.arbitrary::<u16>().ok()? as u64,
                    out_align: u.int_in_range(0u8..=63).ok()?,
                },
                _ => KCase::XofMany { cv: cvs(u).ok()?, block_seed: u.arbitrary::<u16>().ok()? as u64, block_len: u.int_in_range(0u8..=64).ok()?, counter: counter(u).ok()?, flags: u.arbitrary().ok()?, n: u.int_in_range(1u8..=40).ok()?, out_align: u.int_in_range(0u8..=63).ok()? },
            };
            js(k)
        }
        #[cfg(feature = "cshim")]
        ("C06", "c-api-histories") => {
            use crate::levels::ALL_LEVELS;
            use props::c06::{COp, Case, InitC};
            let variant = u.int_in_range(0u8..=8).ok()?;
            let av: Vec<_> = ALL_LEVELS.iter().copied().filter(|l| l.cpu_has()).collect();
            let mask = *u.choose(&av).ok()?;
            let init = match u.int_in_range(0u8..=3).ok()? {
                0 => InitC::Plain,
                1 => InitC::Keyed(u.arbitrary().ok()?),
                2 => InitC::DeriveStr(ctx(u, false).ok()?),
                _ => InitC::DeriveRaw(ctx(u, true).ok()?),
            };
            let content = content(u).ok()?;
            let mut ops = Vec::new();
            while !u.is_empty() && ops.len() < 30 {
                let k = match u.int_in_range(0u8..=2).ok()? {
                    0 => u.int_in_range(0u16..=130).ok()?,
                    1 => *u.choose(&[0u16, 32, 63, 64, 65, 128, 1024, 1088]).ok()?,
                    _ => u.int_in_range(0u16..=3000).ok()?,
                };
                let op = match u.int_in_range(0u8..=13).ok()? {
                    0..=4 => COp::Update(size(u).ok()?),
                    5 => COp::UpdateNull,
                    6 | 7 => COp::Finalize(k),
                    8..=10 => COp::FinalizeSeek(position(u).ok()?, k),
                    11 => COp::Reset,
                    12 => COp::Copy,
                    _ => COp::Swap,
                };
                ops.push(op);
            }
            js(Case { variant, mask, init, content, budget: 96 * 1024, ops })
        }
        #[cfg(feature = "b3")]
        ("C13", "arbitrary-text") => {
            use props::c13::TextCase;
            // the whole input is the line (lossy: the parser only ever sees &str)
            js(TextCase::Raw(String::from_utf8_lossy(data).to_string()))
        }
        #[cfg(feature = "b3")]
        ("C13", "round-trip") => {
            use props::c13::{RtCase, SYMBOLS};
            let tag = u.arbitrary().ok()?;
            let term = u.int_in_range(0u8..=2).ok()?;
            let hash: [u8; 32] = u.arbitrary().ok()?;
            let mut path = Vec::new();
            while !u.is_empty() && path.len() < 16 {
                path.push(u.int_in_range(0u8..=(SYMBOLS.len() as u8 - 1)).ok()?);
            }
            if path.is_empty() {
                path.push(0);
            }
            js(RtCase { path, tag, hash, term })
        }
        #[cfg(feature = "full")]
        ("C14", "random") => {
            use props::c14::Case;
            if data.is_empty() {
                return js(Case::HexInput(Vec::new()));
            }
            let (sel, rest) = (data[0], &data[1..]);
            match sel % 4 {
                0 | 1 => js(Case::HexInput(rest.to_vec())),
                2 => js(Case::Slice(rest.to_vec())),
                _ => {
                    let mut a = [0u8; 32];
                    let n = core::cmp::min(32, rest.len());
                    a[..n].copy_from_slice(&rest[..n]);
                    let mut b = a;
                    if rest.len() > 33 {
                        b[rest[32] as usize % 32] ^= rest[33];
                    }
                    js(Case::Pair(a.to_vec(), b.to_vec()))
                }
            }
        }
        #[cfg(feature = "full")]
        ("C16", "trait-histories") => {
            use props::c16::{Case, TOp};
            let mode = mode(u, false).ok()?;
            let trait_ctor = u.int_in_range(0u8..=2).ok()?;
            let content = content(u).ok()?;
            let mut ops = Vec::new();
            while !u.is_empty() && ops.len() < 30 {
                let n = u.int_in_range(0u16..=300).ok()?;
                let g = u.arbitrary::<bool>().ok()?;
                let op = match u.int_in_range(0u8..=38).ok()? {
                    0..=3 => TOp::Update(size(u).ok()?),
                    4 => TOp::Chain(size(u).ok()?),
                    5 => TOp::DigestUpdate(size(u).ok()?),
                    6 => TOp::DigestChain(size(u).ok()?),
                    7 => TOp::MacUpdate(size(u).ok()?),
                    8 => TOp::MacChain(size(u).ok()?),
                    9 => TOp::DynUpdate(size(u).ok()?),
                    10 => TOp::FinalizeFixed,
                    11 => TOp::FinalizeInto,
                    12 => TOp::FinalizeFixedReset,
                    13 => TOp::FinalizeIntoReset,
                    14 => TOp::Xof(n),
                    15 => TOp::XofInto(n),
                    16 => TOp::XofBoxed(n),
                    17 => TOp::FinalizeBoxed(n),
                    18 => TOp::XofReset(n),
                    19 => TOp::XofResetInto(n),
                    20 => TOp::FinalizeBoxedReset(n),
                    21 => TOp::Reset,
                    22 => TOp::DigestFinalize,
                    23 => TOp::DigestFinalizeReset,
                    24 => TOp::DigestFinalizeIntoReset,
                    25 => TOp::DigestReset,
                    26 => TOp::DynFinalizeReset,
                    27 => TOp::DynFinalizeBoxed,
                    28 => TOp::DynFinalizeIntoReset,
                    29 => TOp::DynReset,
                    30 => TOp::DynBoxClone,
                    31 => TOp::MacFinalize,
                    32 => TOp::MacFinalizeReset,
                    33 => TOp::MacReset,
                    34 => TOp::MacVerify(g),
                    35 => TOp::MacVerifySlice(g),
                    36 => TOp::MacVerifyReset(g),
                    37 => TOp::MacVerifyTruncLeft(n as u8, g),
                    _ => TOp::MacVerifyTruncRight(n as u8, g),
                };
                ops.push(op);
            }
            if ops.is_empty() {
                ops.push(TOp::FinalizeFixed);
            }
            js(Case { mode, trait_ctor, content, budget: 64 * 1024, ops })
        }
        _ => None,
    }
}

/// Decode `data` into one case of (prop, sub) and check it.
pub fn one(prop: &str, sub: &str, data: &[u8], _tier: Tier) -> Option<(serde_json::Value, Classes, Result<(), String>)> {
    let case = decode(prop, sub, data)?;
    for s in props::subs(prop) {
        if s.name() == sub {
            return match s.classify_and_check(&case) {
                Ok((cl, r)) => Some((case, cl, r)),
                Err(_) => None,
            };
        }
    }
    None
}

/// libFuzzer target body: panics (so that libFuzzer keeps the input) when the oracle fails,
/// after writing the decoded case as an ordinary replay file.
pub fn target(prop: &str, sub: &str, data: &[u8]) {
    static HOOK: std::sync::Once = std::sync::Once::new();
    HOOK.call_once(crate::runner::install_quiet_panic_hook);
    if let Some((case, _cl, Err(msg))) = one(prop, sub, data, Tier::Quick) {
        let dir = std::env::var("VERIF_REPLAY_DIR").unwrap_or_else(|_| "/verif/replays".to_string());
        let fp = crate::runner::fingerprint(&format!("{}{}", sub, case));
        let path = format!("{}/{}-{}-fuzz-{:016x}.json", dir, prop, sub, fp);
        let doc = serde_json::json!({"property": prop, "sub": sub, "message": msg, "tier": "fuzz", "seed": 0, "case": case});
        let _ = std::fs::create_dir_all(&dir);
        let _ = std::fs::write(&path, serde_json::to_string_pretty(&doc).unwrap());
        eprintln!("FUZZ-VIOLATION property={} replay={}\n{}", prop, path, msg);
        let _ = std::panic::take_hook();
        panic!("oracle failed: {}", msg);
    }
}
