//! Coverage-guided fuzzing entry points: the fuzzer's bytes drive the proptest
//! strategy of a sub-check (PassThrough RNG), the sub-check's own oracle decides.

use crate::props;
use crate::runner::{Classes, Tier};

/// Decode `data` into one case of (prop, sub) and check it.
pub fn one(prop: &str, sub: &str, data: &[u8], tier: Tier) -> Option<(serde_json::Value, Classes, Result<(), String>)> {
    for s in props::subs(prop) {
        if s.name() == sub {
            return s.fuzz(data, tier);
        }
    }
    None
}

/// libFuzzer target body: panics (so that libFuzzer keeps the input) when the oracle fails,
/// after writing the decoded case as an ordinary replay file.
pub fn target(prop: &str, sub: &str, data: &[u8]) {
    static HOOK: std::sync::Once = std::sync::Once::new();
    HOOK.call_once(crate::runner::install_quiet_panic_hook);
    if let Some((case, _cl, Err(msg))) = one(prop, sub, data, Tier::Quick) {
        let dir = std::env::var("VERIF_REPLAY_DIR").unwrap_or_else(|_| "/verif/replays".to_string());
        let fp = crate::runner::fingerprint(&format!("{}{}", sub, case));
        let path = format!("{}/{}-{}-fuzz-{:016x}.json", dir, prop, sub, fp);
        let doc = serde_json::json!({"property": prop, "sub": sub, "message": msg, "tier": "fuzz", "seed": 0, "case": case});
        let _ = std::fs::create_dir_all(&dir);
        let _ = std::fs::write(&path, serde_json::to_string_pretty(&doc).unwrap());
        eprintln!("FUZZ-VIOLATION property={} replay={}\n{}", prop, path, msg);
        // restore the default hook so that libFuzzer sees an ordinary panic/abort
        let _ = std::panic::take_hook();
        panic!("oracle failed: {}", msg);
    }
}
