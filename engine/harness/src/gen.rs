//! Shared generators (proptest strategies) and their pure expansions.

use b3spec::KeyFlags;
use proptest::prelude::*;
use proptest::strategy::BoxedStrategy;
use serde::{Deserialize, Serialize};

pub fn splitmix(x: &mut u64) -> u64 {
    *x = x.wrapping_add(0x9E37_79B9_7F4A_7C15);
    let mut z = *x;
    z = (z ^ (z >> 30)).wrapping_mul(0xBF58_476D_1CE4_E5B9);
    z = (z ^ (z >> 27)).wrapping_mul(0x94D0_49BB_1331_11EB);
    z ^ (z >> 31)
}

pub fn fill_random(buf: &mut [u8], seed: u64) {
    let mut s = seed ^ 0xA5A5_5A5A_0F0F_F0F0;
    let mut chunks = buf.chunks_exact_mut(8);
    for c in &mut chunks {
        c.copy_from_slice(&splitmix(&mut s).to_le_bytes());
    }
    let r = chunks.into_remainder();
    let last = splitmix(&mut s).to_le_bytes();
    let n = r.len();
    r.copy_from_slice(&last[..n]);
}

/// Input content as (kind, seed); expanded by a pure function so that large
/// inputs shrink on their length and kind rather than on megabytes of bytes.
#[derive(Clone, Debug, Serialize, Deserialize, PartialEq, Eq)]
pub struct Content {
    /// 0 = i%251 pattern, 1 = zeros, 2 = 0xFF, 3 = random, 4 = one random chunk repeated,
    /// 5 = random with aligned runs of 8-24 zero bytes inside most 64-byte blocks (zero-padded records, length prefixes)
    pub kind: u8,
    pub seed: u64,
}

impl Content {
    pub fn expand(&self, len: usize) -> Vec<u8> {
        let mut v = vec![0u8; len];
        match self.kind % 6 {
            0 => {
                let off = (self.seed % 251) as usize;
                for (i, b) in v.iter_mut().enumerate() {
                    *b = ((i + off) % 251) as u8;
                }
            }
            1 => {}
            2 => {
                for b in v.iter_mut() {
                    *b = 0xff;
                }
            }
            3 => fill_random(&mut v, self.seed),
            5 => {
                fill_random(&mut v, self.seed);
                let mut st = self.seed ^ 0x5eed;
                let mut at = 0usize;
                while at < len {
                    let r = splitmix(&mut st);
                    if r % 4 != 0 {
                        let off = at + 8 * ((r >> 8) % 8) as usize;
                        let run = 8 * (1 + (r >> 16) % 3) as usize;
                        for b in v.iter_mut().skip(off).take(run) {
                            *b = 0;
                        }
                    }
                    at += 64;
                }
            }
            _ => {
                let mut chunk = [0u8; 1024];
                fill_random(&mut chunk, self.seed);
                for (i, b) in v.iter_mut().enumerate() {
                    *b = chunk[i % 1024];
                }
            }
        }
        v
    }
}

pub fn content() -> BoxedStrategy<Content> {
    (prop_oneof![3 => Just(3u8), 1 => Just(0u8), 1 => Just(1u8), 1 => Just(2u8), 1 => Just(4u8), 1 => Just(5u8)], any::<u64>())
        .prop_map(|(kind, seed)| Content { kind, seed })
        .boxed()
}

/// Context strings for derive_key: (kind, length in chars, seed).
#[derive(Clone, Debug, Serialize, Deserialize, PartialEq, Eq)]
pub struct CtxSpec {
    /// 0 = ASCII, 1 = non-ASCII UTF-8 mix, 2 = arbitrary bytes incl. NUL / invalid UTF-8 (raw C initialiser only)
    pub kind: u8,
    pub len: u16,
    pub seed: u64,
}

impl CtxSpec {
    pub fn string(&self) -> String {
        let mut s = String::new();
        let mut st = self.seed;
        for _ in 0..self.len {
            let r = splitmix(&mut st);
            if self.kind == 0 {
                s.push((0x20 + (r % 0x5f) as u8) as char);
            } else {
                let c = match r % 4 {
                    0 => char::from_u32(0x20 + (r >> 8) as u32 % 0x5f),
                    1 => char::from_u32(0xA0 + (r >> 8) as u32 % 0x700),
                    2 => char::from_u32(0x4E00 + (r >> 8) as u32 % 0x5000),
                    _ => char::from_u32(0x1F300 + (r >> 8) as u32 % 0x300),
                };
                s.push(c.unwrap_or('x'));
            }
        }
        s
    }
    /// Bytes form (for the raw initialiser and the spec model).
    pub fn bytes(&self) -> Vec<u8> {
        if self.kind == 2 {
            let mut v = vec![0u8; self.len as usize];
            fill_random(&mut v, self.seed);
            // make sure NUL and invalid UTF-8 are present when there is room
            if v.len() >= 3 {
                let n = v.len();
                v[n / 2] = 0;
                v[n - 1] = 0xff;
            }
            v
        } else {
            self.string().into_bytes()
        }
    }
}

pub fn ctx_spec(max_chars: u16, allow_raw: bool) -> BoxedStrategy<CtxSpec> {
    let len = prop_oneof![
        2 => Just(0u16),
        6 => 1u16..=80,
        2 => 1000u16..=1100,
        1 => 0u16..=max_chars,
    ];
    let kind = if allow_raw { prop_oneof![Just(0u8), Just(1u8), Just(2u8)].boxed() } else { prop_oneof![Just(0u8), Just(1u8)].boxed() };
    (kind, len, any::<u64>())
        .prop_map(move |(kind, len, seed)| CtxSpec { kind, len: len.min(max_chars), seed })
        .boxed()
}

pub const TEST_KEY: &[u8; 32] = b"whats the Elvish word for friend";
pub const TEST_CONTEXT: &str = "BLAKE3 2019-12-27 16:29:52 test vectors context";

pub fn key32() -> BoxedStrategy<[u8; 32]> {
    prop_oneof![
        6 => any::<[u8; 32]>(),
        1 => Just([0u8; 32]),
        1 => Just([0xffu8; 32]),
        1 => Just(*TEST_KEY),
    ]
    .boxed()
}

#[derive(Clone, Debug, Serialize, Deserialize, PartialEq, Eq)]
pub enum ModeC {
    Hash,
    Keyed([u8; 32]),
    Derive(CtxSpec),
    /// hazmat: Hasher::new_from_context_key
    DeriveCk([u8; 32]),
}

impl ModeC {
    pub fn kf(&self) -> KeyFlags {
        match self {
            ModeC::Hash => KeyFlags::hash(),
            ModeC::Keyed(k) => KeyFlags::keyed(k),
            ModeC::Derive(c) => KeyFlags::derive_key(&c.bytes()),
            ModeC::DeriveCk(k) => KeyFlags::derive_key_from_context_key(k),
        }
    }
    pub fn hasher(&self) -> blake3::Hasher {
        use blake3::hazmat::HasherExt;
        match self {
            ModeC::Hash => blake3::Hasher::new(),
            ModeC::Keyed(k) => blake3::Hasher::new_keyed(k),
            ModeC::Derive(c) => blake3::Hasher::new_derive_key(&c.string()),
            ModeC::DeriveCk(k) => blake3::Hasher::new_from_context_key(k),
        }
    }
    pub fn is_default(&self) -> bool {
        matches!(self, ModeC::Hash)
    }
    pub fn tag(&self) -> &'static str {
        match self {
            ModeC::Hash => "mode=hash",
            ModeC::Keyed(_) => "mode=keyed",
            ModeC::Derive(_) => "mode=derive_key",
            ModeC::DeriveCk(_) => "mode=derive_from_context_key",
        }
    }
}

/// The three public modes.
pub fn mode3() -> BoxedStrategy<ModeC> {
    prop_oneof![
        Just(ModeC::Hash),
        key32().prop_map(ModeC::Keyed),
        ctx_spec(5000, false).prop_map(ModeC::Derive),
    ]
    .boxed()
}

/// The three modes plus the hazmat context-key constructor.
pub fn mode4() -> BoxedStrategy<ModeC> {
    prop_oneof![
        3 => Just(ModeC::Hash),
        3 => key32().prop_map(ModeC::Keyed),
        2 => ctx_spec(200, false).prop_map(ModeC::Derive),
        2 => key32().prop_map(ModeC::DeriveCk),
    ]
    .boxed()
}

/// Length lattice: block, chunk, power-of-two-subtree and SIMD-degree boundaries +-{0,1,64,65}.
pub fn lattice_points(max: usize) -> Vec<usize> {
    let mut v: Vec<i64> = (0..=8).collect();
    let deltas: [i64; 7] = [-65, -64, -1, 0, 1, 64, 65];
    let mut ks: Vec<i64> = (0..=33).collect();
    let mut j = 1i64;
    while j * 1024 <= 2 * max as i64 {
        ks.extend_from_slice(&[j, j - 1, j + 1, 3 * j]);
        j *= 2;
    }
    let mut m = 1i64;
    while 4 * m * 1024 <= max as i64 && m <= 64 {
        ks.extend_from_slice(&[4 * m, 8 * m, 16 * m]);
        m += 1;
    }
    for &k in &ks {
        for &d in &deltas {
            if k <= 40 {
                v.push(64 * k + d);
            }
            v.push(1024 * k + d);
        }
    }
    let mut out: Vec<usize> = v.into_iter().filter(|&x| x >= 0 && x as usize <= max).map(|x| x as usize).collect();
    out.sort_unstable();
    out.dedup();
    out
}

pub fn len_lattice(max: usize) -> BoxedStrategy<usize> {
    let pts = lattice_points(max);
    let n = pts.len();
    let bits = (usize::BITS - max.max(1).leading_zeros()) as u32;
    prop_oneof![
        4 => (0usize..n).prop_map(move |i| pts[i]),
        3 => 0usize..=core::cmp::min(4096, max),
        3 => (0u32..=bits, any::<u32>()).prop_map(move |(b, f)| {
            if b == 0 { return 0; }
            let lo = 1usize << (b - 1);
            let span = lo; // [2^(b-1), 2^b)
            core::cmp::min(max, lo + (f as usize) % span)
        }),
    ]
    .boxed()
}

/// Counter lattice K (64-bit counters).
pub fn counter_lattice() -> BoxedStrategy<u64> {
    prop_oneof![
        2 => 0u64..=2,
        4 => (0u64..=34).prop_map(|d| (1u64 << 32) - 17 + d),
        1 => (0u64..=2).prop_map(|d| (1u64 << 33) - 1 + d),
        1 => (0u64..=40).prop_map(|d| (1u64 << 32) * 3 - 20 + d),
        1 => Just(1u64 << 53),
        1 => (0u64..=40).prop_map(|d| (1u64 << 54) - d),
        1 => (0u64..=2).prop_map(|d| (1u64 << 63) - 1 + d),
        2 => (0u64..=40).prop_map(|d| u64::MAX - d),
        2 => any::<u32>().prop_map(|x| x as u64),
        2 => any::<u64>(),
    ]
    .boxed()
}

/// XOF positions (bytes) built from the counter lattice times 64 plus an in-block offset.
pub fn position_lattice() -> BoxedStrategy<u64> {
    prop_oneof![
        3 => 0u64..=300,
        2 => (0u64..=40, 0u64..64).prop_map(|(k, o)| 64 * k + o),
        3 => (0u64..=34, 0u64..64).prop_map(|(d, o)| 64 * ((1u64 << 32) - 17 + d) + o),
        1 => (0u64..=34, 0u64..64).prop_map(|(d, o)| 64 * ((1u64 << 33) - 17 + d) + o),
        2 => (0u64..=70_000).prop_map(|d| u64::MAX - d),
        1 => any::<u64>(),
    ]
    .boxed()
}

/// Monotone index mapping (for choices into variable-size collections).
pub fn pick_index(sel: u16, len: usize) -> usize {
    if len == 0 {
        return 0;
    }
    ((sel as usize) * len) >> 16
}

/// Uniform choice from a list. (Used instead of `prop::sample::select`, whose value tree forks the
/// runner's RNG: with the byte-driven PassThrough RNG of the fuzz entry every fork halves the
/// remaining entropy, which then runs dry after a dozen choices.)
pub fn select<T: Clone + std::fmt::Debug + 'static>(items: Vec<T>) -> BoxedStrategy<T> {
    let n = items.len();
    assert!(n > 0);
    (0..n).prop_map(move |i| items[i].clone()).boxed()
}
