//! Runner: seeded proptest execution, enumeration sweeps, classification,
//! shrinking to a replay file, and per-shard result records.

use proptest::strategy::{BoxedStrategy, Strategy};
use proptest::test_runner::{Config, RngAlgorithm, RngSeed, TestCaseError, TestError, TestRunner};
use serde::de::DeserializeOwned;
use serde::Serialize;
use std::cell::RefCell;
use std::collections::{BTreeMap, BTreeSet};
use std::fmt::Debug;
use std::hash::{Hash, Hasher};
use std::panic::{catch_unwind, AssertUnwindSafe};
use std::time::Instant;

#[derive(Clone, Copy, Debug, PartialEq, Eq)]
pub enum Tier {
    Quick,
    Thorough,
}

impl Tier {
    pub fn pick<T>(self, quick: T, thorough: T) -> T {
        match self {
            Tier::Quick => quick,
            Tier::Thorough => thorough,
        }
    }
    pub fn name(self) -> &'static str {
        self.pick("quick", "thorough")
    }
}

/// What a case is, for the evidence histogram.
#[derive(Default, Clone, Debug)]
pub struct Classes {
    pub nontrivial: bool,
    pub tags: Vec<&'static str>,
}

impl Classes {
    pub fn new(nontrivial: bool) -> Self {
        Classes { nontrivial, tags: Vec::new() }
    }
    pub fn tag(mut self, cond: bool, t: &'static str) -> Self {
        if cond {
            self.tags.push(t);
        }
        self
    }
}

#[derive(Serialize, Clone, Debug)]
pub struct Violation {
    pub sub: String,
    pub message: String,
    pub replay: String,
}

#[derive(Serialize, Clone, Debug, Default)]
pub struct SubResult {
    pub sub: String,
    pub evaluations: u64,
    pub nontrivial: u64,
    pub nontrivial_fps: Vec<String>,
    pub classes: BTreeMap<String, u64>,
    pub samples: Vec<serde_json::Value>,
    pub violations: Vec<Violation>,
    pub excluded_known: u64,
    pub exhaustive: bool,
    pub wall_s: f64,
    pub notes: Vec<String>,
    pub rule: String,
}

pub struct ShardCtx {
    pub prop: String,
    pub tier: Tier,
    pub seed: u64,
    pub shard: u32,
    pub nshards: u32,
    pub only: Option<String>,
    pub replay_dir: String,
    pub strict: bool,
    pub breadcrumb: Option<String>,
    pub results: Vec<SubResult>,
}

impl ShardCtx {
    /// Record the case about to run, so that a process-killing fault in native
    /// code under test can still be attributed to a concrete case by the driver.
    fn crumb<T: Serialize>(&self, sub: &str, case: &T) {
        if let Some(p) = &self.breadcrumb {
            let doc = serde_json::json!({"property": self.prop, "sub": sub, "seed": self.seed, "tier": self.tier.name(), "case": case});
            let _ = std::fs::write(p, doc.to_string());
        }
    }
}

pub fn fingerprint(s: &str) -> u64 {
    let mut h = std::collections::hash_map::DefaultHasher::new();
    s.hash(&mut h);
    h.finish()
}

fn mix_seed(seed: u64, shard: u32, sub: &str) -> [u8; 32] {
    let mut out = [0u8; 32];
    let mut x = seed ^ 0x9E37_79B9_7F4A_7C15u64.wrapping_mul(shard as u64 + 1) ^ fingerprint(sub);
    for i in 0..4 {
        // splitmix64
        x = x.wrapping_add(0x9E37_79B9_7F4A_7C15);
        let mut z = x;
        z = (z ^ (z >> 30)).wrapping_mul(0xBF58_476D_1CE4_E5B9);
        z = (z ^ (z >> 27)).wrapping_mul(0x94D0_49BB_1331_11EB);
        z ^= z >> 31;
        out[i * 8..i * 8 + 8].copy_from_slice(&z.to_le_bytes());
    }
    out
}

thread_local! {
    static LAST_PANIC: RefCell<Option<String>> = RefCell::new(None);
}

pub fn install_quiet_panic_hook() {
    std::panic::set_hook(Box::new(|info| {
        let msg = if let Some(s) = info.payload().downcast_ref::<&str>() {
            s.to_string()
        } else if let Some(s) = info.payload().downcast_ref::<String>() {
            s.clone()
        } else {
            "<non-string panic payload>".to_string()
        };
        let loc = info.location().map(|l| format!("{}:{}", l.file(), l.line())).unwrap_or_default();
        LAST_PANIC.with(|p| *p.borrow_mut() = Some(format!("{} at {}", msg, loc)));
    }));
}

/// Run a check, turning a panic inside the code under test into a failure of
/// the property ("never panics or trips an internal assertion").
pub fn guarded<T>(check: &dyn Fn(&T) -> Result<(), String>, case: &T) -> Result<(), String> {
    LAST_PANIC.with(|p| *p.borrow_mut() = None);
    match catch_unwind(AssertUnwindSafe(|| check(case))) {
        Ok(r) => r,
        Err(_) => {
            let m = LAST_PANIC.with(|p| p.borrow_mut().take()).unwrap_or_else(|| "panic".into());
            Err(format!("panic: {}", m))
        }
    }
}

/// Run a closure and report a panic as Err(message). For use inside checks that
/// need to continue after an observed panic.
pub fn catch<R>(f: impl FnOnce() -> R) -> Result<R, String> {
    LAST_PANIC.with(|p| *p.borrow_mut() = None);
    match catch_unwind(AssertUnwindSafe(f)) {
        Ok(r) => Ok(r),
        Err(_) => Err(LAST_PANIC.with(|p| p.borrow_mut().take()).unwrap_or_else(|| "panic".into())),
    }
}

pub trait DynSub {
    fn name(&self) -> &'static str;
    fn run(&self, ctx: &mut ShardCtx);
    fn replay(&self, case: &serde_json::Value) -> Result<(), String>;
    /// Classify and check a case given as JSON (used by the byte-decoding fuzz entry).
    fn classify_and_check(&self, case: &serde_json::Value) -> Result<(Classes, Result<(), String>), String>;
}

struct Acc {
    res: SubResult,
    fps: BTreeSet<u64>,
    largest: Vec<(usize, serde_json::Value)>,
}

impl Acc {
    fn new(sub: &str, rule: &str) -> Self {
        Acc {
            res: SubResult { sub: sub.to_string(), rule: rule.to_string(), ..Default::default() },
            fps: BTreeSet::new(),
            largest: Vec::new(),
        }
    }
    fn record<T: Serialize>(&mut self, case: &T, cl: &Classes) {
        self.res.evaluations += 1;
        for t in &cl.tags {
            *self.res.classes.entry((*t).to_string()).or_insert(0) += 1;
        }
        if cl.nontrivial {
            self.res.nontrivial += 1;
            let js = serde_json::to_string(case).unwrap_or_default();
            let fp = fingerprint(&js);
            if self.fps.insert(fp) {
                if self.res.samples.len() < 3 {
                    if let Ok(v) = serde_json::from_str::<serde_json::Value>(&js) {
                        self.res.samples.push(v);
                    }
                } else {
                    // keep the two largest (by encoded size) seen after the first three
                    let sz = js.len();
                    if self.largest.len() < 2 || self.largest.iter().any(|(s, _)| *s < sz) {
                        if let Ok(v) = serde_json::from_str::<serde_json::Value>(&js) {
                            if sz < 20_000 {
                                self.largest.push((sz, v));
                                self.largest.sort_by(|a, b| b.0.cmp(&a.0));
                                self.largest.truncate(2);
                            }
                        }
                    }
                }
            }
        }
    }
    fn finish(mut self, t0: Instant) -> SubResult {
        for (_, v) in self.largest.drain(..) {
            self.res.samples.push(v);
        }
        self.res.nontrivial_fps = self.fps.iter().map(|f| format!("{:016x}", f)).collect();
        self.res.wall_s = t0.elapsed().as_secs_f64();
        self.res
    }
}

fn write_replay<T: Serialize>(ctx: &ShardCtx, sub: &str, case: &T, message: &str) -> String {
    let case_js = serde_json::to_value(case).unwrap_or(serde_json::Value::Null);
    let fp = fingerprint(&format!("{}{}", sub, case_js));
    let path = format!("{}/{}-{}-{:016x}.json", ctx.replay_dir, ctx.prop, sub, fp);
    let doc = serde_json::json!({
        "property": ctx.prop,
        "sub": sub,
        "message": message,
        "seed": ctx.seed,
        "tier": ctx.tier.name(),
        "case": case_js,
    });
    let _ = std::fs::create_dir_all(&ctx.replay_dir);
    let _ = std::fs::write(&path, serde_json::to_string_pretty(&doc).unwrap());
    path
}

/// A property checked over a proptest strategy.
pub struct PropSub<T: 'static> {
    pub name: &'static str,
    pub rule: &'static str,
    /// total cases over all shards (quick, thorough)
    pub cases: (u32, u32),
    pub strategy: fn(Tier) -> BoxedStrategy<T>,
    pub classify: fn(&T) -> Classes,
    pub check: fn(&T) -> Result<(), String>,
    /// cases matching a listed known finding are excluded by construction (counted)
    pub known: Option<fn(&T) -> bool>,
    /// write a breadcrumb before each case (for checks that call native code which may fault)
    pub crumb: bool,
}

impl<T> DynSub for PropSub<T>
where
    T: Clone + Debug + Serialize + DeserializeOwned + 'static,
{
    fn name(&self) -> &'static str {
        self.name
    }

    fn run(&self, ctx: &mut ShardCtx) {
        let t0 = Instant::now();
        let total = ctx.tier.pick(self.cases.0, self.cases.1);
        let per_shard = (total + ctx.nshards - 1) / ctx.nshards;
        let mut acc = Acc::new(self.name, self.rule);
        if per_shard == 0 {
            ctx.results.push(acc.finish(t0));
            return;
        }
        let config = Config {
            cases: per_shard,
            failure_persistence: None,
            rng_seed: RngSeed::Fixed(0),
            max_shrink_iters: 3000,
            max_shrink_time: 120_000,
            max_global_rejects: 65_536,
            ..Config::default()
        };
        let rng = proptest::test_runner::TestRng::from_seed(RngAlgorithm::ChaCha, &mix_seed(ctx.seed, ctx.shard, self.name));
        let mut runner = TestRunner::new_with_rng(config, rng);
        let strat = (self.strategy)(ctx.tier);
        let failed = RefCell::new(false);
        let accr = RefCell::new(&mut acc);
        let check = self.check;
        let classify = self.classify;
        let known = self.known;
        let strict = ctx.strict;
        let ctx_ro: &ShardCtx = ctx;
        let name = self.name;
        let use_crumb = self.crumb;
        let outcome = runner.run(&strat, |case| {
            if let Some(k) = known {
                if !strict && k(&case) {
                    if !*failed.borrow() {
                        accr.borrow_mut().res.excluded_known += 1;
                    }
                    return Ok(());
                }
            }
            if !*failed.borrow() {
                let cl = classify(&case);
                accr.borrow_mut().record(&case, &cl);
            }
            if use_crumb {
                ctx_ro.crumb(name, &case);
            }
            match guarded(&check, &case) {
                Ok(()) => Ok(()),
                Err(m) if m.starts_with("ENGINE-UNCONFIRMED") => {
                    // a schedule-dependent anomaly that did not reproduce in the amplified re-runs:
                    // recorded in the evidence, neither a violation nor an engine error
                    let mut a = accr.borrow_mut();
                    *a.res.classes.entry("unconfirmed-anomaly(not-reproduced)".to_string()).or_insert(0) += 1;
                    if a.res.notes.len() < 5 {
                        a.res.notes.push(format!("UNCONFIRMED-ANOMALY: {}", m));
                    }
                    Ok(())
                }
                Err(m) if m.starts_with("ENGINE") => {
                    // harness-side problem (watchdog, scratch file, fork): never a violation
                    let mut a = accr.borrow_mut();
                    if a.res.notes.len() < 5 {
                        a.res.notes.push(format!("ENGINE-ABORT: {}", m));
                    }
                    Ok(())
                }
                Err(m) => {
                    *failed.borrow_mut() = true;
                    Err(TestCaseError::fail(m))
                }
            }
        });
        drop(accr);
        match outcome {
            Ok(()) => {}
            Err(TestError::Fail(reason, value)) => {
                let msg = reason.message().to_string();
                let path = write_replay(ctx, self.name, &value, &msg);
                acc.res.violations.push(Violation { sub: self.name.to_string(), message: msg, replay: path });
            }
            Err(TestError::Abort(reason)) => {
                acc.res.notes.push(format!("ENGINE-ABORT: {}", reason.message()));
            }
        }
        ctx.results.push(acc.finish(t0));
    }

    fn replay(&self, case: &serde_json::Value) -> Result<(), String> {
        let c: T = serde_json::from_value(case.clone()).map_err(|e| format!("replay decode: {}", e))?;
        guarded(&self.check, &c)
    }

    fn classify_and_check(&self, case: &serde_json::Value) -> Result<(Classes, Result<(), String>), String> {
        let c: T = serde_json::from_value(case.clone()).map_err(|e| format!("decode: {}", e))?;
        let cl = (self.classify)(&c);
        let r = match guarded(&self.check, &c) {
            Err(m) if m.starts_with("ENGINE") => Ok(()),
            other => other,
        };
        Ok((cl, r))
    }
}

/// A property checked over an explicitly enumerated (finite) set of cases.
pub struct EnumSub<T: 'static> {
    pub name: &'static str,
    pub rule: &'static str,
    pub items: fn(Tier) -> Box<dyn Iterator<Item = T>>,
    pub classify: fn(&T) -> Classes,
    pub check: fn(&T) -> Result<(), String>,
    pub exhaustive: bool,
    pub known: Option<fn(&T) -> bool>,
    pub crumb: bool,
}

impl<T> DynSub for EnumSub<T>
where
    T: Clone + Debug + Serialize + DeserializeOwned + 'static,
{
    fn name(&self) -> &'static str {
        self.name
    }

    fn run(&self, ctx: &mut ShardCtx) {
        let t0 = Instant::now();
        let mut acc = Acc::new(self.name, self.rule);
        acc.res.exhaustive = self.exhaustive;
        let mut nviol = 0;
        for (i, case) in (self.items)(ctx.tier).enumerate() {
            if (i as u32) % ctx.nshards != ctx.shard {
                continue;
            }
            if let Some(k) = self.known {
                if !ctx.strict && k(&case) {
                    acc.res.excluded_known += 1;
                    continue;
                }
            }
            let cl = (self.classify)(&case);
            acc.record(&case, &cl);
            if self.crumb {
                ctx.crumb(self.name, &case);
            }
            if let Err(m) = guarded(&self.check, &case) {
                if m.starts_with("ENGINE") {
                    if acc.res.notes.len() < 5 {
                        acc.res.notes.push(format!("ENGINE-ABORT: {}", m));
                    }
                    continue;
                }
                nviol += 1;
                if nviol <= 3 {
                    let path = write_replay(ctx, self.name, &case, &m);
                    acc.res.violations.push(Violation { sub: self.name.to_string(), message: m, replay: path });
                }
            }
        }
        if nviol > 3 {
            acc.res.notes.push(format!("{} failing enumerated cases in this shard; first 3 saved", nviol));
        }
        ctx.results.push(acc.finish(t0));
    }

    fn replay(&self, case: &serde_json::Value) -> Result<(), String> {
        let c: T = serde_json::from_value(case.clone()).map_err(|e| format!("replay decode: {}", e))?;
        guarded(&self.check, &c)
    }

    fn classify_and_check(&self, case: &serde_json::Value) -> Result<(Classes, Result<(), String>), String> {
        let c: T = serde_json::from_value(case.clone()).map_err(|e| format!("decode: {}", e))?;
        let cl = (self.classify)(&c);
        let r = match guarded(&self.check, &c) {
            Err(m) if m.starts_with("ENGINE") => Ok(()),
            other => other,
        };
        Ok((cl, r))
    }
}

pub fn boxed<S: Strategy + 'static>(s: S) -> BoxedStrategy<S::Value> {
    s.boxed()
}

#[macro_export]
macro_rules! ensure {
    ($cond:expr, $($arg:tt)*) => {
        if !($cond) {
            return Err(format!($($arg)*));
        }
    };
}

pub fn hex(b: &[u8]) -> String {
    let mut s = String::with_capacity(b.len() * 2);
    for x in b {
        s.push_str(&format!("{:02x}", x));
    }
    s
}

/// Compare two byte strings, reporting the first difference compactly.
pub fn eq_bytes(what: &str, got: &[u8], want: &[u8]) -> Result<(), String> {
    if got == want {
        return Ok(());
    }
    if got.len() != want.len() {
        return Err(format!("{}: length {} != expected {}", what, got.len(), want.len()));
    }
    let i = got.iter().zip(want.iter()).position(|(a, b)| a != b).unwrap();
    let lo = i.saturating_sub(4);
    let hi = core::cmp::min(got.len(), i + 12);
    Err(format!(
        "{}: first difference at byte {} of {}: got ..{}.. expected ..{}..",
        what,
        i,
        got.len(),
        hex(&got[lo..hi]),
        hex(&want[lo..hi])
    ))
}
