"""ThreadSanitizer runs of the C library (C08: parallel-join seam with every split
truly concurrent; C18: disjoint hashers on many threads with detection racing).

The driver engine/cfuzz/tsan_driver.c is compiled with clang -fsanitize=thread
against /repo/c as it is at check time. Inputs come from splitmix64(VERIF_SEED).
A TSan report or a result mismatch is a violation; the replay file records the
exact driver command line.
"""
import json
import os
import subprocess
import time

HERE = os.path.dirname(os.path.abspath(__file__))
ROOT = os.path.dirname(HERE)
WORK = os.path.join(ROOT, "work", "tsan")
REPLAYS = os.path.join(ROOT, "replays")
REPO_C = os.path.join(os.environ.get("VERIF_REPO", "/repo"), "c")
SRC = ["blake3.c", "blake3_dispatch.c", "blake3_portable.c", "blake3_sse2_x86-64_unix.S", "blake3_sse41_x86-64_unix.S",
       "blake3_avx2_x86-64_unix.S", "blake3_avx512_x86-64_unix.S"]


def build():
    os.makedirs(WORK, exist_ok=True)
    out = os.path.join(WORK, "tsan_driver")
    cmd = ["clang", "-fsanitize=thread", "-O1", "-g", "-DBLAKE3_USE_TBB", "-DBLAKE3_TESTING", "-I" + REPO_C, "-o", out,
           os.path.join(HERE, "cfuzz", "tsan_driver.c")] + [os.path.join(REPO_C, s) for s in SRC] + ["-lpthread"]
    p = subprocess.run(cmd, stdout=subprocess.PIPE, stderr=subprocess.STDOUT, text=True)
    if p.returncode != 0:
        return None, p.stdout[-2000:]
    return out, ""


def plans(prop, tier, seed):
    if prop == "C08":
        n = 60 if tier == "quick" else 1500
        return [["c08", str(seed * 1000003 + 17), str(n)]]
    if prop == "C18":
        if tier == "quick":
            return [["c18", str(seed * 1000003 + 5), "16", "150"], ["c18", str(seed * 1000003 + 6), "2", "600"]]
        return [["c18", str(seed * 1000003 + k), str(t), str(r)] for k, (t, r) in enumerate([(2, 5000), (4, 3000), (8, 2000), (16, 1500), (32, 800), (64, 300)])]
    return []


def run_one(binp, args):
    env = dict(os.environ)
    env["TSAN_OPTIONS"] = "halt_on_error=0 report_signal_unsafe=0 exitcode=66"
    t0 = time.time()
    try:
        p = subprocess.run([binp] + args, stdout=subprocess.PIPE, stderr=subprocess.PIPE, text=True, timeout=3600, env=env)
    except subprocess.TimeoutExpired:
        return dict(args=args, rc="timeout", reports=0, mismatch=False, wall=time.time() - t0, tail="")
    reports = p.stderr.count("WARNING: ThreadSanitizer")
    mismatch = "MISMATCH" in p.stdout or (p.returncode == 1)
    summary = [l for l in p.stderr.splitlines() if l.startswith("SUMMARY: ThreadSanitizer")]
    return dict(args=args, rc=p.returncode, reports=reports, mismatch=mismatch, wall=round(time.time() - t0, 2),
                tail=(p.stdout.strip().splitlines() or [""])[-1], summary=summary[:3])


def after(prop, tier, seed):
    pl = plans(prop, tier, seed)
    if not pl:
        return {}
    binp, err = build()
    if binp is None:
        return {"engine_error": "TSan driver does not build against the current /repo/c: %s" % err[-600:]}
    runs = []
    viol = []
    for args in pl:
        r = run_one(binp, args)
        runs.append(r)
        if r["rc"] == "timeout":
            continue
        if r["reports"] > 0 or r["mismatch"]:
            os.makedirs(REPLAYS, exist_ok=True)
            path = os.path.join(REPLAYS, "%s-tsan-%s.json" % (prop, "-".join(args)))
            with open(path, "w") as f:
                json.dump({"property": prop, "sub": "tsan", "tsan_args": args,
                           "message": "ThreadSanitizer reports: %d %s; result mismatch: %s" % (r["reports"], r.get("summary"), r["mismatch"])}, f, indent=1)
            viol.append(dict(sub="tsan", message="C library under ThreadSanitizer (%s): %d data-race reports %s, mismatch=%s" % (" ".join(args), r["reports"], r.get("summary"), r["mismatch"]), replay=path))
        elif r["rc"] not in (0,):
            return {"engine_error": "TSan driver exited with %s: %s" % (r["rc"], r["tail"])}
    def n_exec(a):
        return int(a[2]) if a[0] == "c08" else int(a[2]) * int(a[3])
    res = {"coverage": {"tsan_runs": runs, "evaluations": sum(n_exec(r["args"]) for r in runs), "distinct_nontrivial": 0,
                        "rule": "TSan: C library (clang -fsanitize=thread, assembly kernels uninstrumented) driven by engine/cfuzz/tsan_driver.c: c08 = update_tbb with every split on its own pthread vs serial update; c18 = N threads x rounds of init/update/finalize_seek on private hashers in 3 modes, feature detection reset so the first calls race; any TSan report or mismatch fails"},
           "assumptions": ["TSan sees C code only (hand-written assembly is not instrumented); absence of reports on the sampled schedules is not absence of races"]}
    if viol:
        res["violations"] = viol
    return res


def replay(prop, path):
    try:
        doc = json.load(open(path))
    except Exception:
        return None
    if "tsan_args" not in doc:
        return None
    binp, err = build()
    if binp is None:
        print("ENGINE-ERROR: %s" % err[-400:])
        return 2
    r = run_one(binp, doc["tsan_args"])
    if r["reports"] > 0 or r["mismatch"]:
        print("replay: FAILS: %s" % r)
        print("VIOLATION property=%s replay=%s" % (prop, path))
        return 1
    print("replay: no TSan report, results agree (%s)" % r["tail"])
    return 0
