"""AddressSanitizer + UndefinedBehaviorSanitizer + libFuzzer target for the C library
(engine/cfuzz/c_api_fuzz.c). Used by C06 (outputs) and C07 (memory safety / UB of the C
code incl. the C intrinsics kernels, which the sanitizers instrument).

quick tier   : build, replay the committed corpus (fuzz/corpus/c_api_fuzz), then QUICK_RUNS libFuzzer executions from it
thorough tier: the same with THOROUGH_RUNS executions
"""
import json
import os
import re
import shutil
import subprocess
import time

HERE = os.path.dirname(os.path.abspath(__file__))
ROOT = os.path.dirname(HERE)
WORK = os.path.join(ROOT, "work", "csan")
REPLAYS = os.path.join(ROOT, "replays")
CORPUS = os.path.join(ROOT, "fuzz", "corpus", "c_api_fuzz")
REPO_C = os.path.join(os.environ.get("VERIF_REPO", "/repo"), "c")
SRC = [("blake3.c", []), ("blake3_dispatch.c", []), ("blake3_portable.c", []), ("blake3_sse2.c", ["-msse2"]), ("blake3_sse41.c", ["-msse4.1"]),
       ("blake3_avx2.c", ["-mavx2"]), ("blake3_avx512.c", ["-mavx512f", "-mavx512vl"])]
SAN = ["-fsanitize=fuzzer,address,undefined", "-fno-sanitize-recover=undefined", "-fno-omit-frame-pointer"]
THOROUGH_RUNS = 400000
QUICK_RUNS = 6000


def build_spec():
    env = dict(os.environ)
    env["CARGO_NET_OFFLINE"] = "true"
    env.pop("RUSTFLAGS", None)
    tdir = os.path.join(ROOT, "target", "spec")
    p = subprocess.run(["cargo", "build", "-q", "--release", "-p", "b3spec", "--target-dir", tdir], cwd=os.path.join(ROOT, "engine"), env=env,
                       stdout=subprocess.PIPE, stderr=subprocess.STDOUT, text=True)
    lib = os.path.join(tdir, "release", "libb3spec.a")
    if p.returncode != 0 or not os.path.exists(lib):
        return None, p.stdout[-1500:]
    return lib, ""


def build():
    os.makedirs(WORK, exist_ok=True)
    lib, err = build_spec()
    if lib is None:
        return None, "spec staticlib: " + err
    objs = []
    procs = []
    for src, flags in SRC:
        obj = os.path.join(WORK, src.replace(".", "_") + ".o")
        cmd = ["clang", "-c", "-O1", "-g", "-DBLAKE3_TESTING", "-I" + REPO_C] + [s.replace("fuzzer,", "fuzzer-no-link,") for s in SAN] + flags + [os.path.join(REPO_C, src), "-o", obj]
        procs.append((src, subprocess.Popen(cmd, stdout=subprocess.PIPE, stderr=subprocess.STDOUT, text=True)))
        objs.append(obj)
    for src, p in procs:
        out, _ = p.communicate()
        if p.returncode != 0:
            return None, "%s: %s" % (src, out[-1500:])
    binp = os.path.join(WORK, "c_api_fuzz")
    cmd = ["clang", "-O1", "-g", "-I" + REPO_C] + SAN + [os.path.join(HERE, "cfuzz", "c_api_fuzz.c")] + objs + [lib, "-lpthread", "-ldl", "-lm", "-o", binp]
    p = subprocess.run(cmd, stdout=subprocess.PIPE, stderr=subprocess.STDOUT, text=True)
    if p.returncode != 0:
        return None, p.stdout[-2000:]
    return binp, ""


def _run(binp, args, timeout):
    env = dict(os.environ)
    env["ASAN_OPTIONS"] = "detect_leaks=0:abort_on_error=0"
    env["UBSAN_OPTIONS"] = "print_stacktrace=1:halt_on_error=1"
    art = os.path.join(WORK, "artifacts") + "/"
    os.makedirs(art, exist_ok=True)
    t0 = time.time()
    try:
        p = subprocess.run([binp] + args + ["-artifact_prefix=" + art, "-timeout=60", "-rss_limit_mb=4096", "-print_final_stats=1"],
                           stdout=subprocess.PIPE, stderr=subprocess.STDOUT, text=True, timeout=timeout, env=env)
    except subprocess.TimeoutExpired:
        return dict(rc="timeout", out="", wall=time.time() - t0, art=art)
    return dict(rc=p.returncode, out=p.stdout, wall=round(time.time() - t0, 1), art=art)


def _verdict(prop, r, what):
    """-> (violation or None, note or None)"""
    if r["rc"] == 0:
        return None, None
    if r["rc"] == "timeout" or "libFuzzer: timeout" in r["out"] or "out-of-memory" in r["out"]:
        return None, "%s: libFuzzer watchdog (timeout/oom): inconclusive" % what
    out = r["out"]
    m = re.search(r"Test unit written to (\S+)", out)
    path = m.group(1) if m else r["art"]
    reason = "crash"
    for key in ("C-API-ORACLE-FAILURE", "ERROR: AddressSanitizer", "runtime error:", "deadly signal"):
        i = out.find(key)
        if i >= 0:
            reason = out[i:i + 400].replace("\n", " | ")
            break
    # keep the crashing input next to the other replays
    os.makedirs(REPLAYS, exist_ok=True)
    keep = os.path.join(REPLAYS, "%s-c_api_fuzz-%s" % (prop, os.path.basename(path) or "crash"))
    try:
        if os.path.isfile(path):
            shutil.copy(path, keep)
            path = keep
    except Exception:
        pass
    return dict(sub="c_api_fuzz(asan+ubsan)", message="%s: %s" % (what, reason), replay=path), None


def after(prop, tier, seed):
    if prop not in ("C06", "C07"):
        return {}
    binp, err = build()
    if binp is None:
        return {"engine_error": "sanitizer fuzz target does not build against the current /repo/c: %s" % err[-800:]}
    cov = {}
    viol = []
    notes = []
    n_corpus = len(os.listdir(CORPUS)) if os.path.isdir(CORPUS) else 0
    execs = 0
    if n_corpus:
        r = _run(binp, [CORPUS, "-runs=0"], 1800)
        v, n = _verdict(prop, r, "replay of the committed corpus (%d inputs)" % n_corpus)
        cov["corpus_replay"] = dict(inputs=n_corpus, wall_s=r["wall"], exit=r["rc"])
        execs += n_corpus
        if v:
            viol.append(v)
        if n:
            notes.append(n)
    if not viol:
        runs = THOROUGH_RUNS if tier == "thorough" else QUICK_RUNS
        wc = os.path.join(WORK, "run-corpus")
        shutil.rmtree(wc, ignore_errors=True)
        os.makedirs(wc)
        r = _run(binp, [wc] + ([CORPUS] if n_corpus else []) + ["-runs=%d" % runs, "-seed=%d" % (seed + 1), "-len_control=0", "-max_len=512"], 4 * 3600)
        m = re.search(r"stat::number_of_executed_units:\s*(\d+)", r["out"] or "")
        k = int(m.group(1)) if m else 0
        execs += k
        cov["campaign"] = dict(executions=k, wall_s=r["wall"], exit=r["rc"])
        v, n = _verdict(prop, r, "libFuzzer campaign (%d executions)" % k)
        if v:
            viol.append(v)
        if n:
            notes.append(n)
    res = {"coverage": {"c_sanitizer_fuzz": cov, "evaluations": execs, "distinct_nontrivial": 0,
                        "rule": "C library under clang ASan+UBSan+libFuzzer (engine/cfuzz/c_api_fuzz.c): inputs decode to API histories (4 initialisers x 5 CPU-feature masks x update/finalize/finalize_seek/reset/struct copy, C intrinsics kernels instrumented); oracle: spec model on every output, hasher unchanged by finalize, no sanitizer report"},
           "assumptions": ["ASan/UBSan instrument the C sources (incl. the C intrinsics kernels), not the hand-written assembly (covered by guard pages and trampolines)"]}
    if notes:
        res["coverage"]["c_sanitizer_fuzz"]["notes"] = notes
    if viol:
        res["violations"] = viol
    return res


def replay(prop, path):
    if "c_api_fuzz" not in os.path.basename(path):
        return None
    binp, err = build()
    if binp is None:
        print("ENGINE-ERROR: %s" % err[-400:])
        return 2
    r = _run(binp, [path], 600)
    v, n = _verdict(prop, r, "replay")
    if v:
        print("replay: FAILS: %s" % v["message"][:600])
        print("VIOLATION property=%s replay=%s" % (prop, path))
        return 1
    print("replay: input passes (exit %s)" % r["rc"])
    return 0
