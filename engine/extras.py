"""Property-specific steps that run outside the vcheck binary (fuzz-corpus
replays, sanitizer drivers, known-finding probes). Each hook returns a dict;
all keys are optional."""


def setup():
    return True


def before(prop, tier, seed):
    return {}


def after(prop, tier, seed):
    return {}


def replay(prop, path):
    return None
