"""Property-specific steps that run outside the generic shard loop: coverage
completeness checks (C04/C05), fuzz-corpus replays and sanitizer drivers
(C02/C03/C06/C07/C13/C14). Each hook returns a dict; all keys are optional:
coverage (merged into evidence.coverage), violations, known, assumptions,
engine_error, nshards, workers, extra_args."""
import json
import os
import subprocess
import sys

HERE = os.path.dirname(os.path.abspath(__file__))
ROOT = os.path.dirname(HERE)
WORK = os.path.join(ROOT, "work")
EVID = os.path.join(ROOT, "evidence")


def _verif():
    import verif  # the driver module (verif.py is importable: ROOT is on sys.path when run as a script)
    return verif


sys.path.insert(0, ROOT)


def setup():
    ok = True
    try:
        import fuzzers
        ok = fuzzers.setup() and ok
    except ImportError:
        pass
    return ok


def before(prop, tier, seed):
    return {}


def _shard_classes(prop, tier):
    """class histograms per flavour from the shard outputs of the run that just finished"""
    out = {}
    d = os.path.join(WORK, prop)
    if not os.path.isdir(d):
        return out
    for name in os.listdir(d):
        if not name.startswith(tier + "-") or not name.endswith(".json"):
            continue
        fl = name[len(tier) + 1:].rsplit("-", 1)[0]
        try:
            doc = json.load(open(os.path.join(d, name)))
        except Exception:
            continue
        for r in doc.get("results", []):
            h = out.setdefault(fl, {})
            for k, v in r.get("classes", {}).items():
                h[k] = h.get(k, 0) + v
    return out


EXPECTED_LEVELS = {
    "asm": ["Portable", "SSE2", "SSE41", "AVX2", "AVX512"],
    "intr": ["Portable", "SSE2", "SSE41", "AVX2", "AVX512"],
    "plain": ["Portable", "SSE2", "SSE41", "AVX2", "AVX512"],
    "nostd": ["Portable", "SSE2", "SSE41", "AVX2", "AVX512"],
    "pure": ["Portable", "SSE2", "SSE41", "AVX2"],
    "max_sse41": ["Portable", "SSE2", "SSE41"],
    "portable_only": ["Portable"],
    "stock": ["AVX512"],
    "stock_no_avx512": ["AVX2"],
    "stock_no_avx2": ["SSE41"],
    "stock_no_sse41": ["SSE2"],
    "stock_no_sse2": ["Portable"],
}

CPU_FLAG = {"SSE2": "sse2", "SSE41": "sse4_1", "AVX2": "avx2", "AVX512": "avx512vl"}


def _cpu_has(level):
    if level == "Portable":
        return True
    try:
        flags = open("/proc/cpuinfo").read()
    except Exception:
        return True
    return (" " + CPU_FLAG[level] + " ") in flags or (" " + CPU_FLAG[level] + "\n") in flags


def after(prop, tier, seed):
    res = {}
    v = _verif()
    if prop == "C04":
        hist = _shard_classes(prop, tier)
        pairs = []
        missing = []
        for fl in v.PROP_FLAVOURS[prop][tier]:
            for lvl in EXPECTED_LEVELS.get(fl, []):
                if not _cpu_has(lvl):
                    continue
                tag = "cfg=%s:%s" % (fl if not fl.startswith("stock") else fl, lvl)
                n = hist.get(fl, {}).get(tag, 0)
                if n > 0:
                    pairs.append({"build": fl, "level": lvl, "cases": n})
                else:
                    missing.append("%s:%s" % (fl, lvl))
        res["coverage"] = {"configurations_executed": pairs}
        if missing:
            res["engine_error"] = "expected (build, level) pairs did not execute: %s" % ", ".join(missing)
    if prop in ("C05", "C07"):
        ks = {}
        for fl in v.PROP_FLAVOURS[prop][tier]:
            try:
                p = subprocess.run([v.flavour_bin(fl), "kernels"], stdout=subprocess.PIPE, text=True, timeout=60)
                ks[fl] = [l for l in p.stdout.splitlines() if l.strip()]
            except Exception as e:  # noqa
                ks[fl] = ["<could not list: %s>" % e]
        res["coverage"] = {"kernels": ks}
        need = ["asm-unix:", "asm-windows-gnu:", "c-intrinsics:", "c:portable", "Platform::"]
        have = " ".join(ks.get("asm", []))
        lacking = [n for n in need if n not in have]
        if lacking:
            res["engine_error"] = "kernel families missing from the asm build: %s" % lacking
    extra_sources = []
    try:
        import ctsan
        extra_sources.append(ctsan.after(prop, tier, seed))
    except ImportError:
        pass
    try:
        import csan
        extra_sources.append(csan.after(prop, tier, seed))
    except ImportError:
        pass
    for fz in extra_sources:
        for k, val in fz.items():
            if k == "coverage":
                c = res.setdefault("coverage", {})
                for kk, vv in val.items():
                    if kk in ("evaluations", "distinct_nontrivial"):
                        c[kk] = c.get(kk, 0) + vv
                    elif kk == "rule" and "rule" in c:
                        c["rule"] += " || " + vv
                    else:
                        c[kk] = vv
            elif k in ("violations", "known", "assumptions"):
                res.setdefault(k, []).extend(val)
            elif k == "engine_error" and val:
                res["engine_error"] = (res.get("engine_error", "") + "; " + val).strip("; ")
    try:
        import fuzzers
        fz = fuzzers.after(prop, tier, seed)
        for k, val in fz.items():
            if k == "coverage":
                c = res.setdefault("coverage", {})
                for kk, vv in val.items():
                    if kk in ("evaluations", "distinct_nontrivial"):
                        c[kk] = c.get(kk, 0) + vv
                    elif kk == "rule" and "rule" in c:
                        c["rule"] += " || " + vv
                    elif kk == "samples" and "samples" in c:
                        c["samples"] = c["samples"] + vv
                    else:
                        c[kk] = vv
            elif k in ("violations", "known", "assumptions"):
                res.setdefault(k, []).extend(val)
            elif k == "engine_error" and val:
                res["engine_error"] = (res.get("engine_error", "") + "; " + val).strip("; ")
    except ImportError:
        pass
    return res


def replay(prop, path):
    try:
        import ctsan
        r = ctsan.replay(prop, path)
        if r is not None:
            return r
    except ImportError:
        pass
    try:
        import csan
        r = csan.replay(prop, path)
        if r is not None:
            return r
    except ImportError:
        pass
    try:
        import fuzzers
        return fuzzers.replay(prop, path)
    except ImportError:
        return None
