//! Independent executable model of the BLAKE3 specification.
//!
//! Written from the BLAKE3 paper (section 2: compression function, chunk
//! chaining values, binary tree by recursive definition, root output blocks).
//! Deliberately naive and structurally different from every implementation in
//! the repository under test: no CV stack, no SIMD, the message permutation is
//! applied iteratively, and the tree is evaluated by the recursive definition
//! ("the left subtree holds the largest power-of-two number of chunks that
//! still leaves at least one byte for the right subtree").
//!
//! This crate has no dependencies and never looks at /repo.

pub const IV: [u32; 8] = [
    0x6A09E667, 0xBB67AE85, 0x3C6EF372, 0xA54FF53A, 0x510E527F, 0x9B05688C, 0x1F83D9AB, 0x5BE0CD19,
];

/// Table 1 of the paper: the permutation applied to the message words after each round.
pub const MSG_PERMUTATION: [usize; 16] = [2, 6, 3, 10, 7, 0, 4, 13, 1, 11, 12, 5, 9, 14, 15, 8];

pub const CHUNK_START: u32 = 1 << 0;
pub const CHUNK_END: u32 = 1 << 1;
pub const PARENT: u32 = 1 << 2;
pub const ROOT: u32 = 1 << 3;
pub const KEYED_HASH: u32 = 1 << 4;
pub const DERIVE_KEY_CONTEXT: u32 = 1 << 5;
pub const DERIVE_KEY_MATERIAL: u32 = 1 << 6;

pub const BLOCK_LEN: usize = 64;
pub const CHUNK_LEN: usize = 1024;

#[inline(always)]
fn g(v: &mut [u32; 16], a: usize, b: usize, c: usize, d: usize, mx: u32, my: u32) {
    v[a] = v[a].wrapping_add(v[b]).wrapping_add(mx);
    v[d] = (v[d] ^ v[a]).rotate_right(16);
    v[c] = v[c].wrapping_add(v[d]);
    v[b] = (v[b] ^ v[c]).rotate_right(12);
    v[a] = v[a].wrapping_add(v[b]).wrapping_add(my);
    v[d] = (v[d] ^ v[a]).rotate_right(8);
    v[c] = v[c].wrapping_add(v[d]);
    v[b] = (v[b] ^ v[c]).rotate_right(7);
}

fn round(v: &mut [u32; 16], m: &[u32; 16]) {
    // columns
    g(v, 0, 4, 8, 12, m[0], m[1]);
    g(v, 1, 5, 9, 13, m[2], m[3]);
    g(v, 2, 6, 10, 14, m[4], m[5]);
    g(v, 3, 7, 11, 15, m[6], m[7]);
    // diagonals
    g(v, 0, 5, 10, 15, m[8], m[9]);
    g(v, 1, 6, 11, 12, m[10], m[11]);
    g(v, 2, 7, 8, 13, m[12], m[13]);
    g(v, 3, 4, 9, 14, m[14], m[15]);
}

fn permute(m: &mut [u32; 16]) {
    let mut p = [0u32; 16];
    for i in 0..16 {
        p[i] = m[MSG_PERMUTATION[i]];
    }
    *m = p;
}

/// The compression function of section 2.2: all 16 output words.
/// `flags` is the full domain-separation word d (only the low byte is ever
/// non-zero in BLAKE3, but the function is defined for the whole word).
pub fn compress(cv: &[u32; 8], block_words: &[u32; 16], counter: u64, block_len: u32, flags: u32) -> [u32; 16] {
    let mut v = [
        cv[0], cv[1], cv[2], cv[3], cv[4], cv[5], cv[6], cv[7],
        IV[0], IV[1], IV[2], IV[3],
        counter as u32, (counter >> 32) as u32, block_len, flags,
    ];
    let mut m = *block_words;
    for r in 0..7 {
        round(&mut v, &m);
        if r < 6 {
            permute(&mut m);
        }
    }
    for i in 0..8 {
        v[i] ^= v[i + 8];
        v[i + 8] ^= cv[i];
    }
    v
}

pub fn words_from_bytes_64(b: &[u8; 64]) -> [u32; 16] {
    let mut w = [0u32; 16];
    for i in 0..16 {
        w[i] = u32::from_le_bytes([b[4 * i], b[4 * i + 1], b[4 * i + 2], b[4 * i + 3]]);
    }
    w
}

pub fn words_from_bytes_32(b: &[u8; 32]) -> [u32; 8] {
    let mut w = [0u32; 8];
    for i in 0..8 {
        w[i] = u32::from_le_bytes([b[4 * i], b[4 * i + 1], b[4 * i + 2], b[4 * i + 3]]);
    }
    w
}

pub fn bytes_from_words_8(w: &[u32; 8]) -> [u8; 32] {
    let mut b = [0u8; 32];
    for i in 0..8 {
        b[4 * i..4 * i + 4].copy_from_slice(&w[i].to_le_bytes());
    }
    b
}

pub fn bytes_from_words_16(w: &[u32; 16]) -> [u8; 64] {
    let mut b = [0u8; 64];
    for i in 0..16 {
        b[4 * i..4 * i + 4].copy_from_slice(&w[i].to_le_bytes());
    }
    b
}

/// Byte-level convenience wrapper around `compress`: first 8 words (the new CV).
pub fn compress_cv_bytes(cv: &[u32; 8], block: &[u8; 64], block_len: u8, counter: u64, flags: u8) -> [u32; 8] {
    let out = compress(cv, &words_from_bytes_64(block), counter, block_len as u32, flags as u32);
    let mut r = [0u32; 8];
    r.copy_from_slice(&out[..8]);
    r
}

/// Byte-level convenience wrapper: all 64 output bytes.
pub fn compress_xof_bytes(cv: &[u32; 8], block: &[u8; 64], block_len: u8, counter: u64, flags: u8) -> [u8; 64] {
    bytes_from_words_16(&compress(cv, &words_from_bytes_64(block), counter, block_len as u32, flags as u32))
}

/// A node of the tree just before its final compression (the paper's "output").
#[derive(Clone, Debug, PartialEq, Eq)]
pub struct Output {
    pub cv: [u32; 8],
    pub block: [u32; 16],
    pub counter: u64,
    pub block_len: u32,
    pub flags: u32,
}

impl Output {
    /// Non-root use: the node's chaining value.
    pub fn chaining_value(&self) -> [u32; 8] {
        let out = compress(&self.cv, &self.block, self.counter, self.block_len, self.flags);
        let mut r = [0u32; 8];
        r.copy_from_slice(&out[..8]);
        r
    }
    pub fn chaining_value_bytes(&self) -> [u8; 32] {
        bytes_from_words_8(&self.chaining_value())
    }
    /// Root use: output block number `k` (64 bytes), counter = k, ROOT flag set.
    pub fn root_block(&self, k: u64) -> [u8; 64] {
        bytes_from_words_16(&compress(&self.cv, &self.block, k, self.block_len, self.flags | ROOT))
    }
    /// Bytes S[seek .. seek+n] of the root output stream.
    pub fn xof(&self, seek: u64, n: usize) -> Vec<u8> {
        let mut out = Vec::with_capacity(n);
        let mut pos = seek as u128;
        let end = seek as u128 + n as u128;
        while pos < end {
            let k = (pos / 64) as u64;
            let off = (pos % 64) as usize;
            let blk = self.root_block(k);
            let take = core::cmp::min(64 - off, (end - pos) as usize);
            out.extend_from_slice(&blk[off..off + take]);
            pos += take as u128;
        }
        out
    }
    pub fn hash(&self) -> [u8; 32] {
        let b = self.root_block(0);
        let mut r = [0u8; 32];
        r.copy_from_slice(&b[..32]);
        r
    }
}

/// Key words and mode flag of one of the hashing modes.
#[derive(Clone, Copy, Debug, PartialEq, Eq)]
pub struct KeyFlags {
    pub key: [u32; 8],
    pub flags: u32,
}

impl KeyFlags {
    pub fn hash() -> Self {
        KeyFlags { key: IV, flags: 0 }
    }
    pub fn keyed(key: &[u8; 32]) -> Self {
        KeyFlags { key: words_from_bytes_32(key), flags: KEYED_HASH }
    }
    /// derive_key: the context (arbitrary bytes) is hashed with DERIVE_KEY_CONTEXT
    /// and its first 32 output bytes key the DERIVE_KEY_MATERIAL pass.
    pub fn derive_key(context: &[u8]) -> Self {
        let ck = context_key(context);
        KeyFlags { key: words_from_bytes_32(&ck), flags: DERIVE_KEY_MATERIAL }
    }
    pub fn derive_key_from_context_key(ck: &[u8; 32]) -> Self {
        KeyFlags { key: words_from_bytes_32(ck), flags: DERIVE_KEY_MATERIAL }
    }
}

pub fn context_key(context: &[u8]) -> [u8; 32] {
    node_output(&KeyFlags { key: IV, flags: DERIVE_KEY_CONTEXT }, context, 0).hash()
}

/// Section 2.4: the output of a single chunk (<= 1024 bytes, possibly empty)
/// with chunk counter `counter`.
pub fn chunk_output(kf: &KeyFlags, bytes: &[u8], counter: u64) -> Output {
    assert!(bytes.len() <= CHUNK_LEN);
    // Split into blocks; an empty chunk still has one (empty) block.
    let nblocks = if bytes.is_empty() { 1 } else { (bytes.len() + 63) / 64 };
    let mut cv = kf.key;
    for i in 0..nblocks {
        let lo = i * 64;
        let hi = core::cmp::min(lo + 64, bytes.len());
        let mut block = [0u8; 64];
        block[..hi - lo].copy_from_slice(&bytes[lo..hi]);
        let mut flags = kf.flags;
        if i == 0 {
            flags |= CHUNK_START;
        }
        if i == nblocks - 1 {
            flags |= CHUNK_END;
            return Output {
                cv,
                block: words_from_bytes_64(&block),
                counter,
                block_len: (hi - lo) as u32,
                flags,
            };
        }
        let out = compress(&cv, &words_from_bytes_64(&block), counter, 64, flags);
        cv.copy_from_slice(&out[..8]);
    }
    unreachable!()
}

/// The chaining value held by a chunk state after `k` complete 64-byte blocks
/// of `bytes` have been compressed (k < number of blocks). Used to know which
/// intermediate CVs can live inside an incremental hasher.
pub fn chunk_cv_after_blocks(kf: &KeyFlags, bytes: &[u8], counter: u64, k: usize) -> [u32; 8] {
    let mut cv = kf.key;
    for i in 0..k {
        let mut block = [0u8; 64];
        block.copy_from_slice(&bytes[i * 64..i * 64 + 64]);
        let mut flags = kf.flags;
        if i == 0 {
            flags |= CHUNK_START;
        }
        let out = compress(&cv, &words_from_bytes_64(&block), counter, 64, flags);
        cv.copy_from_slice(&out[..8]);
    }
    cv
}

/// Number of bytes in the left subtree of an input of `len` > 1024 bytes:
/// 1024 times the largest power of two that is strictly less than len/1024
/// (rounded up), i.e. the largest power-of-two number of chunks leaving at
/// least one byte on the right.
pub fn left_len(len: u128) -> u128 {
    assert!(len > CHUNK_LEN as u128);
    let mut p: u128 = CHUNK_LEN as u128;
    while p * 2 < len {
        p *= 2;
    }
    p
}

pub fn parent_output(kf: &KeyFlags, left_cv: &[u32; 8], right_cv: &[u32; 8]) -> Output {
    let mut block = [0u32; 16];
    block[..8].copy_from_slice(left_cv);
    block[8..].copy_from_slice(right_cv);
    Output { cv: kf.key, block, counter: 0, block_len: 64, flags: kf.flags | PARENT }
}

/// Section 2.5 by recursive definition: the output of the subtree over `bytes`
/// whose first chunk has index `base`.
pub fn node_output(kf: &KeyFlags, bytes: &[u8], base: u64) -> Output {
    if bytes.len() <= CHUNK_LEN {
        return chunk_output(kf, bytes, base);
    }
    let l = left_len(bytes.len() as u128) as usize;
    let left = node_output(kf, &bytes[..l], base).chaining_value();
    let right = node_output(kf, &bytes[l..], base.wrapping_add((l / CHUNK_LEN) as u64)).chaining_value();
    parent_output(kf, &left, &right)
}

/// Root output of a whole message.
pub fn root(kf: &KeyFlags, input: &[u8]) -> Output {
    node_output(kf, input, 0)
}

pub fn hash(input: &[u8]) -> [u8; 32] {
    root(&KeyFlags::hash(), input).hash()
}

/// Chaining value of a non-root subtree at chunk index `base`.
pub fn subtree_cv(kf: &KeyFlags, bytes: &[u8], base: u64) -> [u8; 32] {
    assert!(!bytes.is_empty());
    node_output(kf, bytes, base).chaining_value_bytes()
}

/// Incremental view of the same recursive definition: chaining values of
/// complete chunks are cached so that the model can be queried after every
/// step of a long history without re-reading all bytes. The tree itself is
/// still evaluated recursively over the chunk sequence.
#[derive(Clone, Debug)]
pub struct Incr {
    pub kf: KeyFlags,
    pub base: u64,
    pub bytes: Vec<u8>,
    cvs: Vec<[u32; 8]>, // cvs[i] = CV of complete chunk i (non-root use)
}

impl Incr {
    pub fn new(kf: KeyFlags) -> Self {
        Incr { kf, base: 0, bytes: Vec::new(), cvs: Vec::new() }
    }
    pub fn with_base(kf: KeyFlags, base: u64) -> Self {
        Incr { kf, base, bytes: Vec::new(), cvs: Vec::new() }
    }
    pub fn len(&self) -> u64 {
        self.bytes.len() as u64
    }
    pub fn push(&mut self, data: &[u8]) {
        self.bytes.extend_from_slice(data);
        while (self.cvs.len() + 1) * CHUNK_LEN <= self.bytes.len() {
            let i = self.cvs.len();
            let cv = chunk_output(&self.kf, &self.bytes[i * CHUNK_LEN..(i + 1) * CHUNK_LEN], self.base.wrapping_add(i as u64))
                .chaining_value();
            self.cvs.push(cv);
        }
    }
    pub fn clear(&mut self) {
        self.bytes.clear();
        self.cvs.clear();
    }
    fn cv_range(&self, lo: usize, len: usize) -> [u32; 8] {
        if len <= CHUNK_LEN {
            if len == CHUNK_LEN {
                return self.cvs[lo / CHUNK_LEN];
            }
            return chunk_output(&self.kf, &self.bytes[lo..lo + len], self.base.wrapping_add((lo / CHUNK_LEN) as u64))
                .chaining_value();
        }
        let l = left_len(len as u128) as usize;
        let a = self.cv_range(lo, l);
        let b = self.cv_range(lo + l, len - l);
        parent_output(&self.kf, &a, &b).chaining_value()
    }
    /// Output of the (sub)tree over everything pushed so far.
    pub fn output(&self) -> Output {
        let n = self.bytes.len();
        if n <= CHUNK_LEN {
            return chunk_output(&self.kf, &self.bytes, self.base);
        }
        let l = left_len(n as u128) as usize;
        let a = self.cv_range(0, l);
        let b = self.cv_range(l, n - l);
        parent_output(&self.kf, &a, &b)
    }
    /// Every chaining value of every node of the tree over the bytes so far
    /// (chunk CVs incl. the partial last chunk as non-root, all parents), as
    /// bytes. Used to know which secrets an implementation may be holding.
    pub fn all_node_cvs(&self) -> Vec<[u8; 32]> {
        let mut out = Vec::new();
        fn rec(s: &Incr, lo: usize, len: usize, out: &mut Vec<[u8; 32]>) -> [u32; 8] {
            let cv = if len <= CHUNK_LEN {
                s.cv_range(lo, len)
            } else {
                let l = left_len(len as u128) as usize;
                let a = rec(s, lo, l, out);
                let b = rec(s, lo + l, len - l, out);
                parent_output(&s.kf, &a, &b).chaining_value()
            };
            out.push(bytes_from_words_8(&cv));
            cv
        }
        if !self.bytes.is_empty() {
            rec(self, 0, self.bytes.len(), &mut out);
        }
        out
    }
}

/// Largest power of two strictly below n (n >= 2), as the specification of
/// `left_subtree_len` in byte units.
pub fn largest_pow2_below(n: u64) -> u64 {
    assert!(n >= 2);
    let mut p: u64 = 1;
    while p <= (n - 1) / 2 {
        p *= 2;
    }
    p
}

// ---------------------------------------------------------------------------
// C ABI (used by the clang libFuzzer driver for the C library).
// mode: 0 = hash, 1 = keyed (aux = 32-byte key), 2 = derive_key (aux = context bytes)
// ---------------------------------------------------------------------------
#[no_mangle]
pub unsafe extern "C" fn b3spec_xof(
    mode: u32,
    aux: *const u8,
    aux_len: usize,
    input: *const u8,
    input_len: usize,
    seek: u64,
    out: *mut u8,
    out_len: usize,
) -> i32 {
    let aux_s: &[u8] = if aux_len == 0 { &[] } else { core::slice::from_raw_parts(aux, aux_len) };
    let in_s: &[u8] = if input_len == 0 { &[] } else { core::slice::from_raw_parts(input, input_len) };
    let kf = match mode {
        0 => KeyFlags::hash(),
        1 => {
            if aux_len != 32 {
                return -1;
            }
            let mut k = [0u8; 32];
            k.copy_from_slice(aux_s);
            KeyFlags::keyed(&k)
        }
        2 => KeyFlags::derive_key(aux_s),
        _ => return -1,
    };
    let bytes = root(&kf, in_s).xof(seek, out_len);
    if out_len > 0 {
        core::ptr::copy_nonoverlapping(bytes.as_ptr(), out, out_len);
    }
    0
}

#[cfg(test)]
mod tests {
    use super::*;
    #[test]
    fn empty_hash() {
        let h = hash(b"");
        assert_eq!(h[..4], [0xaf, 0x13, 0x49, 0xb9]);
    }
    #[test]
    fn incr_matches_recursive() {
        let data: Vec<u8> = (0..10_000u32).map(|i| (i % 251) as u8).collect();
        for n in [0usize, 1, 1023, 1024, 1025, 2048, 2049, 3072, 5000, 8192, 10_000] {
            let kf = KeyFlags::hash();
            let mut inc = Incr::new(kf);
            inc.push(&data[..n / 2]);
            inc.push(&data[n / 2..n]);
            assert_eq!(inc.output(), root(&kf, &data[..n]), "n={}", n);
        }
    }
}
