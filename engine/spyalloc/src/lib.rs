//! A global allocator that forwards to the system allocator and, when a *watched* block is handed
//! back to it, first records what the block contains. The observation point is outside the code
//! that performs the wipe: a wipe written as plain stores is a dead store in front of `free` and an
//! optimising compiler removes it; whoever reads the object back (as a test does) keeps it alive
//! and never sees the difference.
use std::alloc::{GlobalAlloc, Layout, System};
use std::sync::atomic::{AtomicBool, AtomicPtr, AtomicU8, AtomicUsize, Ordering};

pub const MAX: usize = 4096;

static WATCH: AtomicPtr<u8> = AtomicPtr::new(std::ptr::null_mut());
static WATCH_LEN: AtomicUsize = AtomicUsize::new(0);
static SNAP_LEN: AtomicUsize = AtomicUsize::new(0);
static SNAP_VALID: AtomicBool = AtomicBool::new(false);
static INSTALLED: AtomicBool = AtomicBool::new(false);
#[allow(clippy::declare_interior_mutable_const)]
const Z: AtomicU8 = AtomicU8::new(0);
static SNAP: [AtomicU8; MAX] = [Z; MAX];

pub struct Spy;

unsafe impl GlobalAlloc for Spy {
    unsafe fn alloc(&self, layout: Layout) -> *mut u8 {
        INSTALLED.store(true, Ordering::Relaxed);
        unsafe { System.alloc(layout) }
    }
    unsafe fn alloc_zeroed(&self, layout: Layout) -> *mut u8 {
        unsafe { System.alloc_zeroed(layout) }
    }
    unsafe fn realloc(&self, ptr: *mut u8, layout: Layout, new_size: usize) -> *mut u8 {
        unsafe { System.realloc(ptr, layout, new_size) }
    }
    unsafe fn dealloc(&self, ptr: *mut u8, layout: Layout) {
        if !ptr.is_null() && ptr == WATCH.load(Ordering::Relaxed) {
            let n = WATCH_LEN.load(Ordering::Relaxed).min(layout.size()).min(MAX);
            for i in 0..n {
                let b = unsafe { std::ptr::read_volatile(ptr.add(i)) };
                SNAP[i].store(b, Ordering::Relaxed);
            }
            SNAP_LEN.store(n, Ordering::Relaxed);
            SNAP_VALID.store(true, Ordering::Relaxed);
            WATCH.store(std::ptr::null_mut(), Ordering::Relaxed);
        }
        unsafe { System.dealloc(ptr, layout) }
    }
}

#[global_allocator]
static GLOBAL: Spy = Spy;

/// true once the process has allocated through this allocator (false when something else, e.g. a fuzzer runtime,
/// replaced the global allocator)
#[inline(never)]
pub fn installed() -> bool {
    INSTALLED.load(Ordering::Relaxed)
}

/// Watch the heap block starting at `ptr` (`len` bytes, at most MAX).
#[inline(never)]
pub fn watch(ptr: *const u8, len: usize) {
    SNAP_VALID.store(false, Ordering::Relaxed);
    WATCH_LEN.store(len.min(MAX), Ordering::Relaxed);
    WATCH.store(ptr as *mut u8, Ordering::Relaxed);
}

/// The bytes of the watched block as they were when it was freed (None: it has not been freed).
#[inline(never)]
pub fn take_snapshot() -> Option<Vec<u8>> {
    if !SNAP_VALID.swap(false, Ordering::Relaxed) {
        return None;
    }
    let n = SNAP_LEN.load(Ordering::Relaxed);
    Some((0..n).map(|i| SNAP[i].load(Ordering::Relaxed)).collect())
}
