"""Coverage-guided fuzzing layer (cargo-fuzz / libFuzzer targets in /verif/fuzz).

quick tier   : the committed seed corpus of each target of the property is
               replayed through the ordinary vcheck binary (`vcheck fuzz-replay`,
               same byte decoder and same oracle, no nightly toolchain needed).
thorough tier: the libFuzzer targets are built (nightly, ASan, debug assertions)
               and run for a fixed number of executions from the committed
               corpus (-seed = VERIF_SEED, -len_control=0); an oracle failure
               makes the target write a replay file and abort.
"""
import json
import os
import re
import shutil
import subprocess
import sys
import time

HERE = os.path.dirname(os.path.abspath(__file__))
ROOT = os.path.dirname(HERE)
FUZZ = os.path.join(ROOT, "fuzz")
CORPUS = os.path.join(FUZZ, "corpus")
WORK = os.path.join(ROOT, "work")
GUARD = "blake3_team_blake3_verif"

# target name -> (property, sub-check)
TARGETS = {
    "fz_c02_histories": ("C02", "histories"),
    "fz_c03_streams": ("C03", "streams"),
    "fz_c05_kernels": ("C05", "kernels"),
    "fz_c06_capi": ("C06", "c-api-histories"),
    "fz_c09_decomp": ("C09", "decompositions"),
    "fz_c10_reset": ("C10", "reset-histories"),
    "fz_c13_text": ("C13", "arbitrary-text"),
    "fz_c13_roundtrip": ("C13", "round-trip"),
    "fz_c14_hash": ("C14", "random"),
    "fz_c16_traits": ("C16", "trait-histories"),
}
# properties that also profit from a target of another property
ALSO = {"C07": ["fz_c06_capi", "fz_c05_kernels"], "C04": [], "C12": ["fz_c13_text"]}

THOROUGH_RUNS = 300000
# fixed work per target (executions); slow targets (files, rayon pools, ASan) get fewer
RUNS = {
    "fz_c02_histories": 25000,
    "fz_c06_capi": 120000,
    "fz_c09_decomp": 120000,
    "fz_c10_reset": 120000,
    "fz_c16_traits": 200000,
    "fz_c03_streams": 1000000,
    "fz_c05_kernels": 600000,
    "fz_c13_roundtrip": 2000000,
    "fz_c13_text": 2000000,
    "fz_c14_hash": 3000000,
}


def targets_of(prop):
    t = [name for name, (p, _) in TARGETS.items() if p == prop]
    return t


def setup():
    return True


def _vcheck():
    sys.path.insert(0, ROOT)
    import verif
    return verif.flavour_bin("asm")


def _replay_corpus(prop):
    cov = {}
    viol = []
    total = 0
    nt = 0
    samples = []
    for t in targets_of(prop):
        p, sub = TARGETS[t]
        d = os.path.join(CORPUS, t)
        if not os.path.isdir(d):
            continue
        out = os.path.join(WORK, prop, "corpus-%s.json" % t)
        os.makedirs(os.path.dirname(out), exist_ok=True)
        r = subprocess.run([_vcheck(), "fuzz-replay", p, sub, "--out", out, d], stdout=subprocess.PIPE, stderr=subprocess.PIPE, text=True, timeout=1800)
        if r.returncode < 0:
            viol.append(dict(sub="corpus:%s" % t, message="replaying the committed corpus crashed the process (signal %d)" % -r.returncode, replay=d))
            continue
        try:
            doc = json.load(open(out))
        except Exception:
            continue
        cov[t] = dict(files=doc["files"], decoded=doc["decoded"], distinct_nontrivial=doc["distinct_nontrivial"], classes=doc["classes"])
        total += doc["decoded"]
        nt += doc["distinct_nontrivial"]
        for s in doc["samples"][:1]:
            samples.append({"sub": "fuzz-corpus:%s" % t, "case": s})
        viol.extend(doc["violations"])
    res = {}
    if cov:
        res["coverage"] = {"fuzz_corpus_replay": cov, "evaluations": total, "distinct_nontrivial": nt, "samples": samples,
                           "rule": "fuzz corpus: committed libFuzzer corpus inputs decoded by engine/harness/src/fuzz.rs into structured cases and checked by the same oracle; non-trivial by the sub-check's own rule"}
    if viol:
        res["violations"] = viol
    return res


def _fuzz_env():
    env = dict(os.environ)
    env["CARGO_NET_OFFLINE"] = "true"
    env["RUSTFLAGS"] = "--cfg %s --check-cfg cfg(%s)" % (GUARD, GUARD)
    env["VERIF_REPLAY_DIR"] = os.path.join(ROOT, "replays")
    return env


def build_targets(names):
    cmd = ["cargo", "+nightly", "fuzz", "build", "--fuzz-dir", FUZZ] + ([] if names is None else [])
    ok = True
    for n in names:
        p = subprocess.run(["cargo", "+nightly", "fuzz", "build", "--fuzz-dir", FUZZ, n], cwd=ROOT, env=_fuzz_env(), stdout=subprocess.PIPE, stderr=subprocess.STDOUT, text=True)
        if p.returncode != 0:
            ok = False
            print("[fuzz build] %s FAILED\n%s" % (n, p.stdout[-3000:]), file=sys.stderr)
    return ok


def fuzz_bin(name):
    return os.path.join(FUZZ, "target", "x86_64-unknown-linux-gnu", "release", name)


def _run_campaign(prop, seed, runs):
    names = targets_of(prop) + ALSO.get(prop, [])
    if not names:
        return {}
    if not build_targets(names):
        return {"engine_error": "fuzz targets do not build against the current tree"}
    cov = {}
    viol = []
    for t in names:
        work_corpus = os.path.join(WORK, "fuzz", "run-%s" % t)
        shutil.rmtree(work_corpus, ignore_errors=True)
        os.makedirs(work_corpus)
        src = os.path.join(CORPUS, t)
        art = os.path.join(WORK, "fuzz", "artifacts-%s" % t) + "/"
        os.makedirs(art, exist_ok=True)
        cmd = [fuzz_bin(t), work_corpus] + ([src] if os.path.isdir(src) else []) + [
            "-runs=%d" % RUNS.get(t, runs), "-seed=%d" % (seed + 1), "-len_control=0", "-max_len=2048", "-timeout=120", "-rss_limit_mb=4096",
            "-artifact_prefix=%s" % art, "-print_final_stats=1"]
        t0 = time.time()
        p = subprocess.run(cmd, cwd=ROOT, env=_fuzz_env(), stdout=subprocess.PIPE, stderr=subprocess.STDOUT, text=True)
        out = p.stdout
        m = re.search(r"stat::number_of_executed_units:\s*(\d+)", out)
        execs = int(m.group(1)) if m else 0
        m = re.search(r"FUZZ-VIOLATION property=(\S+) replay=(\S+)\n(.*)", out)
        cov[t] = dict(executions=execs, wall_s=round(time.time() - t0, 1), exit=p.returncode, new_corpus_files=len(os.listdir(work_corpus)))
        if m:
            viol.append(dict(sub="fuzz:%s" % t, message=m.group(3)[:500], replay=m.group(2)))
        elif p.returncode != 0:
            if "libFuzzer: timeout" in out or "out-of-memory" in out:
                cov[t]["note"] = "libFuzzer watchdog (timeout/oom): inconclusive, not a violation"
            else:
                # a crash without an oracle message: sanitizer report or signal inside the code under test
                crash = [f for f in os.listdir(art) if f.startswith("crash-")]
                tail = out[-1500:]
                if "ERROR: AddressSanitizer" in out or "deadly signal" in out or crash:
                    path = os.path.join(art, crash[0]) if crash else art
                    viol.append(dict(sub="fuzz:%s" % t, message="libFuzzer target crashed: %s" % tail[-600:], replay=path))
                else:
                    cov[t]["note"] = "libFuzzer exited with %d: %s" % (p.returncode, tail[-300:])
    res = {"coverage": {"fuzz_campaign": cov, "evaluations": sum(c["executions"] for c in cov.values()), "distinct_nontrivial": 0}}
    if viol:
        res["violations"] = viol
    return res


def after(prop, tier, seed):
    res = _replay_corpus(prop)
    if tier == "thorough":
        r2 = _run_campaign(prop, seed, THOROUGH_RUNS)
        for k, v in r2.items():
            if k == "coverage":
                c = res.setdefault("coverage", {})
                for kk, vv in v.items():
                    if kk in ("evaluations", "distinct_nontrivial"):
                        c[kk] = c.get(kk, 0) + vv
                    else:
                        c[kk] = vv
            elif k == "violations":
                res.setdefault("violations", []).extend(v)
            else:
                res[k] = v
    return res


def replay(prop, path):
    """A raw libFuzzer artifact (not JSON) is replayed through the byte decoder."""
    try:
        with open(path, "rb") as f:
            head = f.read(1)
        json.load(open(path))
        return None  # ordinary JSON replay file: handled by verif.py
    except Exception:
        pass
    sys.path.insert(0, ROOT)
    import verif
    if not verif.build_flavours(["asm"]):
        return 2
    m = re.search(r"artifacts-(fz_\w+)", path)
    names = [m.group(1)] if m else targets_of(prop)
    worst = 0
    for t in names:
        p, sub = TARGETS[t]
        r = subprocess.run([_vcheck(), "fuzz-replay", p, sub, path], stdout=subprocess.PIPE, text=True)
        if r.returncode == 1 or r.returncode < 0:
            print("VIOLATION property=%s replay=%s" % (prop, path))
            return 1
        worst = max(worst, r.returncode)
    return worst
