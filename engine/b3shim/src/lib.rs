//! /repo/b3sum/src/main.rs included verbatim as a module; the child module
//! `probe` may use its private items (a child sees its ancestors' private items).
#![allow(dead_code)]

pub mod b3sum_main {
    include!("/repo/b3sum/src/main.rs");

    pub mod probe {
        use std::path::Path;

        /// b3sum's own path printer: (printed path string, whether the line gets a leading backslash)
        pub fn filepath_to_string(path: &Path) -> (String, bool) {
            let r = super::filepath_to_string(path);
            (r.filepath_string, r.is_escaped)
        }

        pub struct Parsed {
            pub file_string: String,
            pub is_escaped: bool,
            pub file_path: std::path::PathBuf,
            pub expected_hash: [u8; 32],
        }

        /// b3sum's own check-line parser.
        pub fn parse_check_line(line: &str) -> Result<Parsed, String> {
            match super::parse_check_line(line) {
                Ok(p) => Ok(Parsed { file_string: p.file_string, is_escaped: p.is_escaped, file_path: p.file_path, expected_hash: *p.expected_hash.as_bytes() }),
                Err(e) => Err(e.to_string()),
            }
        }
    }
}
