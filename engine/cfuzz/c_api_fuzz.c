/* libFuzzer + AddressSanitizer + UndefinedBehaviorSanitizer target for the C library
 * (C06: outputs; C07: "no undefined behaviour, stays inside its buffers" for the C code,
 * including the C intrinsics kernels, which the sanitizers instrument).
 *
 * Built by engine/csan.py with clang -fsanitize=fuzzer,address,undefined from /repo/c as it
 * is at check time: blake3.c, blake3_dispatch.c, blake3_portable.c and the four C intrinsics
 * files (-DBLAKE3_TESTING so that g_cpu_features can be set), linked with the independent
 * spec model (engine/spec, Rust staticlib, C ABI b3spec_xof).
 *
 * A fuzz input is decoded into an API history:
 *   byte 0: initialiser (init / init_keyed / init_derive_key / init_derive_key_raw)
 *   byte 1: CPU-feature mask (portable, SSE2, SSE4.1, AVX2, AVX-512)
 *   then ops: update(n) with n from a size table or 16-bit value / finalize(k) /
 *             finalize_seek(seek from a lattice, k) / reset / struct copy
 * Every output is compared with the spec model on the bytes absorbed since the last reset;
 * outputs are written into exactly-sized heap buffers so that ASan sees any overrun.
 */
#include <stdint.h>
#include <stdio.h>
#include <stdlib.h>
#include <string.h>
#include "blake3.h"

extern int g_cpu_features; /* _Atomic int in blake3_dispatch.c under BLAKE3_TESTING */
int b3spec_xof(uint32_t mode, const uint8_t *aux, size_t aux_len, const uint8_t *input, size_t input_len, uint64_t seek, uint8_t *out, size_t out_len);

enum { SSE2 = 1, SSSE3 = 2, SSE41 = 4, AVX = 8, AVX2 = 16, AVX512F = 32, AVX512VL = 64 };
static const int MASKS[5] = {0, SSE2, SSE2 | SSSE3 | SSE41, SSE2 | SSSE3 | SSE41 | AVX | AVX2, SSE2 | SSSE3 | SSE41 | AVX | AVX2 | AVX512F | AVX512VL};

#define MAX_INPUT (192 * 1024)
static uint8_t *g_model; /* bytes absorbed since the last reset */

static int host_has(int level) {
  if (level <= 1) return 1;
  if (level == 2) return __builtin_cpu_supports("sse4.1");
  if (level == 3) return __builtin_cpu_supports("avx2");
  return __builtin_cpu_supports("avx512f") && __builtin_cpu_supports("avx512vl");
}

static void die(const char *what, uint64_t a, uint64_t b) {
  fprintf(stderr, "C-API-ORACLE-FAILURE: %s (%llu, %llu)\n", what, (unsigned long long)a, (unsigned long long)b);
  abort();
}

static uint64_t seek_of(const uint8_t *p) {
  uint64_t sel = p[0] % 6, v = 0;
  memcpy(&v, p + 1, 7);
  switch (sel) {
  case 0: return v % 300;
  case 1: return 64 * (v % 41) + (v >> 8) % 64;
  case 2: return 64 * (((uint64_t)1 << 32) - 17 + v % 35) + (v >> 8) % 64;
  case 3: return UINT64_MAX - v % 70000;
  case 4: return 64 * (((uint64_t)1 << 33) - 17 + v % 35) + (v >> 8) % 64;
  default: return v * 0x9E3779B97F4A7C15ULL;
  }
}

static const uint32_t SIZES[16] = {0, 1, 63, 64, 65, 1023, 1024, 1025, 2048, 2049, 4096, 8192, 16384, 16385, 32768, 65536};

int LLVMFuzzerTestOneInput(const uint8_t *data, size_t size) {
  if (size < 3) return 0;
  if (!g_model) g_model = malloc(MAX_INPUT);
  int init = data[0] % 4;
  int level = data[1] % 5;
  if (!host_has(level)) level = 0;
  g_cpu_features = MASKS[level];
  uint8_t key[32];
  for (int i = 0; i < 32; i++) key[i] = (uint8_t)(data[2] * 31 + i * 7);
  /* context: 0..200 bytes; the raw initialiser also gets NUL and non-UTF-8 bytes */
  size_t ctx_len = (size_t)(data[2] * 3) % 201;
  uint8_t *ctx = malloc(ctx_len + 1);
  for (size_t i = 0; i < ctx_len; i++) {
    uint8_t c = (uint8_t)(data[2] + i * 13);
    ctx[i] = (init == 3) ? c : (uint8_t)(0x20 + c % 0x5f);
  }
  ctx[ctx_len] = 0;
  uint32_t mode = init == 0 ? 0 : init == 1 ? 1 : 2;
  const uint8_t *aux = init == 1 ? key : ctx;
  size_t aux_len = init == 0 ? 0 : init == 1 ? 32 : ctx_len;

  blake3_hasher h, copy;
  switch (init) {
  case 0: blake3_hasher_init(&h); break;
  case 1: blake3_hasher_init_keyed(&h, key); break;
  case 2: blake3_hasher_init_derive_key(&h, (const char *)ctx); break;
  default: blake3_hasher_init_derive_key_raw(&h, ctx, ctx_len); break;
  }
  size_t n_model = 0;
  size_t pos = 3;
  int ops = 0;
  while (pos < size && ops < 40) {
    uint8_t op = data[pos++];
    ops++;
    switch (op % 8) {
    case 0: case 1: case 2: case 3: { /* update */
      size_t n;
      if (op & 0x40) {
        if (pos + 2 > size) goto done;
        n = (size_t)(data[pos] | (data[pos + 1] << 8)) % 70000;
        pos += 2;
      } else {
        n = SIZES[(op >> 3) % 16];
      }
      if (n_model + n > MAX_INPUT) n = MAX_INPUT - n_model;
      /* the input lives in an exactly-sized heap buffer (ASan catches over-reads) */
      uint8_t *in = malloc(n ? n : 1);
      for (size_t i = 0; i < n; i++) in[i] = (uint8_t)((n_model + i) * 131 + (n_model + i) / 251 + data[2]);
      blake3_hasher_update(&h, n ? in : NULL, n);
      memcpy(g_model + n_model, in, n);
      n_model += n;
      free(in);
      break;
    }
    case 4: case 5: { /* finalize / finalize_seek */
      if (pos + 10 > size) goto done;
      size_t k = (size_t)(data[pos] | (data[pos + 1] << 8)) % 3001;
      uint64_t seek = (op % 8 == 4) ? 0 : seek_of(data + pos + 2);
      pos += 10;
      if (k > UINT64_MAX - seek) k = (size_t)(UINT64_MAX - seek);
      uint8_t *out = malloc(k ? k : 1);
      uint8_t *want = malloc(k ? k : 1);
      blake3_hasher before = h;
      if (op % 8 == 4) blake3_hasher_finalize(&h, k ? out : NULL, k);
      else blake3_hasher_finalize_seek(&h, seek, k ? out : NULL, k);
      if (memcmp(&before, &h, sizeof h) != 0) die("finalize modified the hasher", seek, k);
      if (b3spec_xof(mode, aux, aux_len, g_model, n_model, seek, want, k) != 0) die("spec model refused the case", mode, aux_len);
      if (k && memcmp(out, want, k) != 0) die("output differs from the spec model", seek, k);
      free(out);
      free(want);
      break;
    }
    case 6: /* reset */
      blake3_hasher_reset(&h);
      n_model = 0;
      break;
    default: /* struct copy and continue on the copy */
      copy = h;
      memset(&h, 0xAA, sizeof h);
      h = copy;
      break;
    }
  }
done:;
  uint8_t out[64], want[64];
  blake3_hasher_finalize(&h, out, 64);
  b3spec_xof(mode, aux, aux_len, g_model, n_model, 0, want, 64);
  if (memcmp(out, want, 64) != 0) die("final output differs from the spec model", n_model, 64);
  free(ctx);
  return 0;
}
