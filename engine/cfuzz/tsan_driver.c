/* ThreadSanitizer driver for the C library (thorough tier of C08 and C18).
 *
 * Built by engine/ctsan.py with clang -fsanitize=thread from /repo/c as it is
 * at check time (blake3.c with -DBLAKE3_USE_TBB, dispatch, portable, the Unix
 * assembly kernels). The oneTBB seam blake3_compress_subtree_wide_join_tbb is
 * implemented here with pthreads: the right half of every split runs on its own
 * thread while the left half runs on the calling thread (every split truly
 * concurrent).
 *
 *   tsan_driver c08 <seed> <cases>   update_tbb (all splits concurrent) vs serial update
 *   tsan_driver c18 <seed> <threads> <rounds>   disjoint hashers on many threads, first calls race on detection
 *
 * Inputs are generated from <seed> by splitmix64. Exit 0 = all results agree
 * (TSan itself exits non-zero and prints a report on a data race).
 */
#include <pthread.h>
#include <stdint.h>
#include <stdio.h>
#include <stdlib.h>
#include <string.h>
#include "blake3.h"
#include "blake3_impl.h"

static uint64_t sm(uint64_t *x) {
  uint64_t z = (*x += 0x9E3779B97F4A7C15ULL);
  z = (z ^ (z >> 30)) * 0xBF58476D1CE4E5B9ULL;
  z = (z ^ (z >> 27)) * 0x94D049BB133111EBULL;
  return z ^ (z >> 31);
}
static void fill(uint8_t *p, size_t n, uint64_t seed) {
  uint64_t s = seed;
  for (size_t i = 0; i < n; i++) p[i] = (uint8_t)(sm(&s) >> 17);
}

struct half {
  const uint8_t *input; size_t len; const uint32_t *key; uint64_t counter; uint8_t flags; uint8_t *cvs; size_t *n; bool use_tbb;
};
static void *run_half(void *a) {
  struct half *h = (struct half *)a;
  *h->n = blake3_compress_subtree_wide(h->input, h->len, h->key, h->counter, h->flags, h->cvs, h->use_tbb);
  return NULL;
}
void blake3_compress_subtree_wide_join_tbb(const uint32_t key[8], uint8_t flags, bool use_tbb,
    const uint8_t *l_input, size_t l_input_len, uint64_t l_chunk_counter, uint8_t *l_cvs, size_t *l_n,
    const uint8_t *r_input, size_t r_input_len, uint64_t r_chunk_counter, uint8_t *r_cvs, size_t *r_n) {
  struct half l = {l_input, l_input_len, key, l_chunk_counter, flags, l_cvs, l_n, use_tbb};
  struct half r = {r_input, r_input_len, key, r_chunk_counter, flags, r_cvs, r_n, use_tbb};
  if (!use_tbb) { run_half(&l); run_half(&r); return; }
  pthread_t t;
  if (pthread_create(&t, NULL, run_half, &r) != 0) { run_half(&l); run_half(&r); return; }
  run_half(&l);
  pthread_join(t, NULL);
}

static void init_mode(blake3_hasher *h, int mode, const uint8_t key[32], const char *ctx) {
  if (mode == 0) blake3_hasher_init(h);
  else if (mode == 1) blake3_hasher_init_keyed(h, key);
  else blake3_hasher_init_derive_key(h, ctx);
}

static int c08(uint64_t seed, int cases) {
  int bad = 0;
  uint64_t s = seed;
  for (int c = 0; c < cases; c++) {
    size_t chunks = 2 + sm(&s) % 200;
    size_t len = chunks * 1024 + (sm(&s) % 3 == 0 ? 0 : sm(&s) % 1024);
    size_t prefix = (sm(&s) % 3 == 0) ? 0 : sm(&s) % 5000;
    size_t suffix = sm(&s) % 2000;
    int mode = (int)(sm(&s) % 3);
    uint8_t key[32]; fill(key, 32, sm(&s));
    char ctx[40]; snprintf(ctx, sizeof ctx, "tsan c08 context %llu", (unsigned long long)(sm(&s) % 1000));
    uint8_t *buf = malloc(prefix + len + suffix + 1);
    fill(buf, prefix + len + suffix, sm(&s));
    blake3_hasher a, b;
    init_mode(&a, mode, key, ctx); init_mode(&b, mode, key, ctx);
    blake3_hasher_update(&a, buf, prefix); blake3_hasher_update(&b, buf, prefix);
    blake3_hasher_update_tbb(&a, buf + prefix, len);
    blake3_hasher_update(&b, buf + prefix, len);
    blake3_hasher_update(&a, buf + prefix + len, suffix); blake3_hasher_update(&b, buf + prefix + len, suffix);
    uint8_t oa[96], ob[96];
    blake3_hasher_finalize(&a, oa, 96); blake3_hasher_finalize(&b, ob, 96);
    if (memcmp(oa, ob, 96) != 0) { printf("MISMATCH c08 case %d: len=%zu prefix=%zu mode=%d\n", c, len, prefix, mode); bad++; }
    free(buf);
  }
  printf("c08: %d cases, %d mismatches\n", cases, bad);
  return bad ? 1 : 0;
}

struct job { int id; int rounds; uint64_t seed; int bad; pthread_barrier_t *bar; };
static void expected(int id, int r, uint64_t seed, uint8_t out[64], blake3_hasher *scratch) {
  (void)scratch;
  uint64_t s = seed ^ ((uint64_t)id << 32) ^ (uint64_t)(r % 7);
  size_t len = sm(&s) % 40000;
  int mode = (int)(sm(&s) % 3);
  uint8_t key[32]; fill(key, 32, sm(&s));
  char ctx[48]; snprintf(ctx, sizeof ctx, "tsan c18 ctx %d-%llu", id, (unsigned long long)(sm(&s) % 5));
  uint8_t *buf = malloc(len + 1);
  fill(buf, len, sm(&s));
  blake3_hasher h; init_mode(&h, mode, key, ctx);
  size_t half = len / 3;
  blake3_hasher_update(&h, buf, half);
  blake3_hasher_update(&h, buf + half, len - half);
  blake3_hasher_finalize_seek(&h, 7, out, 64);
  free(buf);
}
static uint8_t (*g_want)[7][64];
static void *worker(void *a) {
  struct job *j = (struct job *)a;
  pthread_barrier_wait(j->bar);
  for (int r = 0; r < j->rounds; r++) {
    uint8_t out[64];
    expected(j->id, r, j->seed, out, NULL);
    if (memcmp(out, g_want[j->id][r % 7], 64) != 0) j->bad++;
  }
  return NULL;
}
extern int g_cpu_features; /* BLAKE3_TESTING: reset detection so that the threads' first calls race on it */
static int c18(uint64_t seed, int threads, int rounds) {
  g_want = calloc((size_t)threads, sizeof *g_want);
  for (int t = 0; t < threads; t++) for (int r = 0; r < 7; r++) expected(t, r, seed, g_want[t][r], NULL);
  *(volatile int *)&g_cpu_features = 1 << 30; /* UNDEFINED */
  pthread_barrier_t bar; pthread_barrier_init(&bar, NULL, (unsigned)threads);
  pthread_t *th = calloc((size_t)threads, sizeof *th);
  struct job *jobs = calloc((size_t)threads, sizeof *jobs);
  for (int t = 0; t < threads; t++) { jobs[t] = (struct job){t, rounds, seed, 0, &bar}; pthread_create(&th[t], NULL, worker, &jobs[t]); }
  int bad = 0;
  for (int t = 0; t < threads; t++) { pthread_join(th[t], NULL); bad += jobs[t].bad; }
  printf("c18: %d threads x %d rounds, %d mismatches\n", threads, rounds, bad);
  return bad ? 1 : 0;
}

int main(int argc, char **argv) {
  if (argc >= 4 && strcmp(argv[1], "c08") == 0) return c08(strtoull(argv[2], 0, 10), atoi(argv[3]));
  if (argc >= 5 && strcmp(argv[1], "c18") == 0) return c18(strtoull(argv[2], 0, 10), atoi(argv[3]), atoi(argv[4]));
  fprintf(stderr, "usage: tsan_driver c08 <seed> <cases> | c18 <seed> <threads> <rounds>\n");
  return 2;
}
