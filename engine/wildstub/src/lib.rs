//! Stand-in for `wild` on Unix: the real crate returns std::env::args_os() there.
pub fn args_os() -> std::env::ArgsOs {
    std::env::args_os()
}
