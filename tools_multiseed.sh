#!/bin/bash
# usage: tools_multiseed.sh <tier> <seed> [<seed>...]  -- runs every property's check for each seed; one summary line each
cd "$(dirname "$0")"
tier="$1"; shift
if [ -n "${VP_RUN_REPO:-}" ] && [ "$(pwd)" != "/verif" ]; then
  sed -i "s#\"/repo#\"$VP_RUN_REPO#g" engine/harness/Cargo.toml engine/b3shim/Cargo.toml engine/b3shim/src/lib.rs
  export VERIF_REPO=$VP_RUN_REPO
fi
for seed in "$@"; do
  for p in ${PROPS:-C01 C02 C03 C04 C05 C06 C07 C08 C09 C10 C11 C12 C13 C14 C15 C16 C17 C18}; do
    s=$(date +%s)
    VERIF_SEED=$seed python3 verif.py check $p --tier $tier > work_ms_$p.log 2>&1
    rc=$?
    echo "seed=$seed $p exit=$rc wall=$(( $(date +%s) - s ))s $(grep -E "^\[$p\] tier" work_ms_$p.log | tail -1)"
    grep -E "^VIOLATION|ENGINE-ERROR|KNOWN-FINDING|UNCONFIRMED|violation in" work_ms_$p.log | head -5
  done
done
